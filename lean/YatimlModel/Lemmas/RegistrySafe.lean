import YatimlModel.Model.Registry
/-!
Generic facts about the registry interpreter:

* `explore_sound` — when `explore` succeeds, every run of the program (any iteration counts) ends in
  one of the listed states;
* `Frame` / `runProg_frame` — a run whose `low` flag stays false leaves every space below its own level
  exactly as it was.
-/
namespace YatimlModel.Reg

/-! ### loops -/

theorem iter_fix (b : List Stmt) (σ : St) (h : runStmts (runStmts σ b) b = runStmts σ b) :
    ∀ n, iter b (n + 1) σ = runStmts σ b := by
  intro n
  induction n generalizing σ with
  | zero => simp [iter]
  | succ n ih =>
    have h1 : iter b (n + 1 + 1) σ = iter b (n + 1) (runStmts σ b) := by simp [iter]
    rw [h1, ih (runStmts σ b) (by rw [h]; exact h), h]

theorem iter_cases (b : List Stmt) (σ : St) (h : runStmts (runStmts σ b) b = runStmts σ b) (n : Nat) :
    iter b n σ = σ ∨ iter b n σ = runStmts σ b := by
  cases n with
  | zero => left; rfl
  | succ n => right; exact iter_fix b σ h n

theorem explore_sound : ∀ (p : List Top) (σ : St) (fs : List St), explore p σ = some fs →
    ∀ cs, runProg p cs σ ∈ fs
  | [], σ, fs, h, cs => by
    simp [explore] at h
    subst h
    simp [runProg]
  | .stmt s :: rest, σ, fs, h, cs => by
    simp only [explore] at h
    simp only [runProg]
    exact explore_sound rest _ fs h cs
  | .loop b :: rest, σ, fs, h, cs => by
    simp only [explore] at h
    split at h
    · rename_i hfix
      split at h
      · rename_i xs ys hx hy
        simp only [Option.some.injEq] at h
        subst h
        simp only [runProg]
        rcases iter_cases b σ hfix (cs.headD 0) with h0 | h1
        · rw [h0]
          exact List.mem_append_left _ (explore_sound rest σ xs hx cs.tail)
        · rw [h1]
          exact List.mem_append_right _ (explore_sound rest _ ys hy cs.tail)
      · simp at h
    · simp at h

/-! ### frames -/

def Frame (σ σ' : St) : Prop :=
  σ'.level = σ.level ∧ (σ.low = true → σ'.low = true) ∧
  (σ'.low = false → ∀ l, l < σ.level → σ'.space l = σ.space l)

theorem Frame.refl (σ : St) : Frame σ σ := ⟨rfl, id, fun _ _ _ => rfl⟩

theorem Frame.trans {a b c : St} (h1 : Frame a b) (h2 : Frame b c) : Frame a c := by
  refine ⟨h2.1.trans h1.1, fun h => h2.2.1 (h1.2.1 h), ?_⟩
  intro hc l hl
  have hb : b.low = false := by
    cases hbl : b.low with
    | false => rfl
    | true => rw [h2.2.1 hbl] at hc; cases hc
  rw [h2.2.2 hc l (by rw [h1.1]; exact hl), h1.2.2 hb l hl]

theorem frame_fail (σ : St) : Frame σ σ.fail := ⟨rfl, id, fun _ _ _ => rfl⟩
theorem frame_bind (σ : St) (x : Name) (v : V) : Frame σ (σ.bind x v) := ⟨rfl, id, fun _ _ _ => rfl⟩

theorem frame_touch (σ : St) (l : Nat) : Frame σ (σ.touch l) := by
  refine ⟨rfl, ?_, fun _ _ _ => rfl⟩
  intro h
  simp [St.touch, h]

theorem space_set_ne (σ : St) (l l' : Nat) (xs : List Obj) (low : Bool) (h : l' ≠ l) :
    St.space { σ with spaces := σ.spaces.set l xs, low := low } l' = σ.space l' := by
  simp [St.space, List.getElem?_set_ne (Ne.symm h)]

theorem frame_write (σ : St) (l i : Nat) (o : Obj) : Frame σ (σ.write l i o) := by
  refine ⟨rfl, ?_, ?_⟩
  · intro h
    simp [St.write, h]
  · intro hlow l' hl'
    simp only [St.write, Bool.or_eq_false_iff, decide_eq_false_iff_not] at hlow
    have : l' ≠ l := by omega
    exact space_set_ne σ l l' _ _ this

theorem frame_alloc (σ : St) (o : Obj) : Frame σ (σ.alloc o).1 := by
  refine ⟨rfl, id, ?_⟩
  intro _ l' hl'
  have : l' ≠ σ.level := by omega
  simp only [St.alloc]
  have := space_set_ne σ σ.level l' (σ.space σ.level ++ [o]) σ.low this
  simpa using this

theorem frame_evalCopy (σ : St) (v : V) (d : Bool) : Frame σ (evalCopy σ v d).2 := by
  unfold evalCopy
  split
  · split
    · exact frame_alloc _ _
    · exact frame_fail _
  · exact frame_fail _

theorem frame_eval (σ : St) (e : E) : Frame σ (eval σ e).2 := by
  induction e generalizing σ with
  | var x =>
    unfold eval
    split
    · exact Frame.refl _
    · exact frame_fail _
  | attr e a ih =>
    unfold eval
    have := ih σ
    split
    · rename_i v σ' he
      rw [he] at this
      split
      · exact this
      · exact this.trans (frame_fail _)
    · rename_i σ' he
      rw [he] at this
      exact this
  | none => exact Frame.refl _
  | atom s => exact Frame.refl _
  | newTbl => exact frame_alloc _ _
  | copyTbl e ih =>
    unfold eval
    have := ih σ
    split
    · rename_i v σ' he
      rw [he] at this
      exact this.trans (frame_evalCopy _ _ _)
    · rename_i σ' he
      rw [he] at this
      exact this
  | deepCopyTbl e ih =>
    unfold eval
    have := ih σ
    split
    · rename_i v σ' he
      rw [he] at this
      exact this.trans (frame_evalCopy _ _ _)
    · rename_i σ' he
      rw [he] at this
      exact this

theorem frame_doSetAttr (σ : St) (t : V) (a : Name) (v : V) : Frame σ (doSetAttr σ t a v) := by
  unfold doSetAttr
  split
  · split
    · exact frame_fail _
    · exact frame_write _ _ _ _
    · exact frame_fail _
  · exact frame_fail _

theorem frame_doTblSet (σ : St) (t : V) : Frame σ (doTblSet σ t) := by
  unfold doTblSet
  split
  · exact frame_touch _ _
  · exact frame_fail _

theorem frame_doTblSetList (σ : St) (t : V) (n : Nat) : Frame σ (doTblSetList σ t n) := by
  unfold doTblSetList
  split
  · exact frame_write _ _ _ _
  · exact frame_fail _

theorem frame_doTblAppendIn (σ : St) (t : V) : Frame σ (doTblAppendIn σ t) := by
  unfold doTblAppendIn
  split
  · exact (frame_touch _ _).trans (frame_touch _ _)
  · exact frame_fail _

/-- evaluate, then continue with a framed continuation -/
theorem frame_eval_then (σ : St) (e : E) (k : V → St → St) (hk : ∀ v σ', Frame σ' (k v σ')) :
    Frame σ (match eval σ e with | (some v, σ') => k v σ' | (none, σ') => σ') := by
  have := frame_eval σ e
  split
  · rename_i v σ' he
    rw [he] at this
    exact this.trans (hk v σ')
  · rename_i σ' he
    rw [he] at this
    exact this

theorem frame_runSimple (σ : St) (s : Simple) : Frame σ (runSimple σ s) := by
  cases s with
  | assign x e =>
    unfold runSimple
    exact frame_eval_then σ e (fun v σ' => σ'.bind x v) (fun v σ' => frame_bind _ _ _)
  | newClass x parent attrs =>
    unfold runSimple
    exact frame_eval_then σ parent _ (fun v σ' => (frame_alloc _ _).trans (frame_bind _ _ _))
  | newInst x c =>
    unfold runSimple
    exact frame_eval_then σ c _ (fun v σ' => (frame_alloc _ _).trans (frame_bind _ _ _))
  | setAttr o a rhs =>
    unfold runSimple
    exact frame_eval_then σ o _ (fun ov σ1 =>
      frame_eval_then σ1 rhs (fun v σ2 => doSetAttr σ2 ov a v) (fun v σ2 => frame_doSetAttr _ _ _ _))
  | tblSet t =>
    unfold runSimple
    exact frame_eval_then σ t _ (fun v σ' => frame_doTblSet _ _)
  | tblSetList t src =>
    cases src with
    | none =>
      unfold runSimple
      exact frame_eval_then σ t _ (fun v σ' => frame_doTblSetList _ _ _)
    | some src =>
      unfold runSimple
      refine frame_eval_then σ t _ (fun tv σ1 => ?_)
      refine frame_eval_then σ1 src _ (fun sv σ2 => ?_)
      split
      · exact frame_doTblSetList _ _ _
      · exact frame_fail _
  | tblAppendIn t =>
    unfold runSimple
    exact frame_eval_then σ t _ (fun v σ' => frame_doTblAppendIn _ _)

theorem frame_runSimples (σ : St) (ss : List Simple) : Frame σ (runSimples σ ss) := by
  induction ss generalizing σ with
  | nil => exact Frame.refl _
  | cons s rest ih => exact (frame_runSimple σ s).trans (ih _)

theorem frame_runStmt (σ : St) (s : Stmt) : Frame σ (runStmt σ s) := by
  cases s with
  | simple s => exact frame_runSimple σ s
  | ifNone e body =>
    simp only [runStmt]
    have := frame_eval σ e
    split
    · rename_i σ' he
      rw [he] at this
      exact this.trans (frame_runSimples _ _)
    · rename_i v σ' _ he
      rw [he] at this
      exact this
    · rename_i σ' he
      rw [he] at this
      exact this
  | ifNotOwn o a body =>
    simp only [runStmt]
    have := frame_eval σ o
    split
    · rename_i v σ' he
      rw [he] at this
      split
      · exact this
      · exact this.trans (frame_runSimples _ _)
    · rename_i σ' he
      rw [he] at this
      exact this

theorem frame_runStmts (σ : St) (ss : List Stmt) : Frame σ (runStmts σ ss) := by
  induction ss generalizing σ with
  | nil => exact Frame.refl _
  | cons s rest ih => exact (frame_runStmt σ s).trans (ih _)

theorem frame_iter (b : List Stmt) (n : Nat) (σ : St) : Frame σ (iter b n σ) := by
  induction n generalizing σ with
  | zero => exact Frame.refl _
  | succ n ih => exact (frame_runStmts σ b).trans (ih _)

theorem frame_runProg : ∀ (p : List Top) (cs : List Nat) (σ : St), Frame σ (runProg p cs σ)
  | [], _, σ => Frame.refl σ
  | .stmt s :: rest, cs, σ => by
    simp only [runProg]
    exact (frame_runStmt σ s).trans (frame_runProg rest cs _)
  | .loop b :: rest, cs, σ => by
    simp only [runProg]
    exact (frame_iter b _ σ).trans (frame_runProg rest cs.tail _)

/-- **Frame.**  A run that ends with `low = false` has not changed any space below its level. -/
theorem runProg_frame (p : List Top) (cs : List Nat) (σ : St) (h : (runProg p cs σ).ok = true)
    (l : Nat) (hl : l < σ.level) : (runProg p cs σ).space l = σ.space l := by
  have hf := frame_runProg p cs σ
  have : (runProg p cs σ).low = false := by
    simp only [St.ok, Bool.and_eq_true, Bool.not_eq_eq_eq_not, Bool.not_true] at h
    exact h.1
  exact hf.2.2 this l hl

end YatimlModel.Reg
