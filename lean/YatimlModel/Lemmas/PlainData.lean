import YatimlModel.Model.Construct
/-!
A tree whose every tag is a core-schema tag (`tag:yaml.org,2002:…`) — which is
what `strip_tags` produces — constructs to plain data (dicts, lists, built-in
scalars) without a single user-constructor call, or fails; whatever the tree
looks like otherwise (merge keys, odd keys, wrong kinds, `!!python/…` tags).
-/
namespace YatimlModel
open NodeOps

-- every tag in the tree starts with `tag:yaml.org,2002:`
mutual
def AllCore : Node → Prop
  | .scalar t _ _ => hasPrefix corePrefix t = true
  | .seq t xs _ => hasPrefix corePrefix t = true ∧ AllCoreL xs
  | .map t ps _ => hasPrefix corePrefix t = true ∧ AllCoreP ps
def AllCoreL : Nodes → Prop
  | .nil => True
  | .cons x xs => AllCore x ∧ AllCoreL xs
def AllCoreP : Pairs → Prop
  | .nil => True
  | .cons k v r => AllCore k ∧ AllCore v ∧ AllCoreP r
end

-- dicts, lists and built-in scalars only
mutual
def Plain : PyVal → Prop
  | .scalar _ => True
  | .date _ => True
  | .bytes _ => True
  | .list xs => PlainL xs
  | .dict kvs => PlainK kvs
  | .obj _ _ => False
  | .enumMember _ _ => False
  | .userStr _ _ => False
  | .path _ => False
def PlainL : PyVals → Prop
  | .nil => True
  | .cons x xs => Plain x ∧ PlainL xs
def PlainK : PyKVs → Prop
  | .nil => True
  | .cons k v r => Plain k ∧ Plain v ∧ PlainK r
end

/-- the resolver table only yields core tags (a `decide`-able fact of the regenerated table) -/
def TableCore (tbl : List Entry) : Prop := ∀ e ∈ tbl, hasPrefix corePrefix e.tag.toString = true

theorem resolve_core (tbl : List Entry) (h : TableCore tbl) (s : List Nat) :
    hasPrefix corePrefix (resolve tbl s).toString = true := by
  unfold resolve
  split
  · rename_i e he
    exact h e (List.mem_of_find?_eq_some he)
  · decide

mutual
theorem stripTags_allCore (tbl : List Entry) (h : TableCore tbl) : ∀ n, AllCore (stripTags tbl n)
  | .scalar t v m => by
    simp only [stripTags]
    split
    · rename_i hc; simpa [AllCore] using hc
    · simp only [AllCore, resolveStr]; exact resolve_core tbl h _
  | .seq t xs m => by
    simp only [stripTags, AllCore]
    exact ⟨by decide, stripTagsL_allCore tbl h xs⟩
  | .map t ps m => by
    simp only [stripTags, AllCore]
    exact ⟨by decide, stripTagsP_allCore tbl h ps⟩
theorem stripTagsL_allCore (tbl : List Entry) (h : TableCore tbl) : ∀ xs, AllCoreL (stripTagsL tbl xs)
  | .nil => by simp [stripTagsL, AllCoreL]
  | .cons x xs => by
    simp only [stripTagsL, AllCoreL]
    exact ⟨stripTags_allCore tbl h x, stripTagsL_allCore tbl h xs⟩
theorem stripTagsP_allCore (tbl : List Entry) (h : TableCore tbl) : ∀ ps, AllCoreP (stripTagsP tbl ps)
  | .nil => by simp [stripTagsP, AllCoreP]
  | .cons k v r => by
    simp only [stripTagsP, AllCoreP]
    exact ⟨stripTags_allCore tbl h k, stripTags_allCore tbl h v, stripTagsP_allCore tbl h r⟩
end

/-! ### list views of the predicates -/

theorem allCoreL_iff : ∀ (xs : Nodes), AllCoreL xs ↔ ∀ x ∈ xs.toList, AllCore x
  | .nil => by simp [AllCoreL, Nodes.toList]
  | .cons x xs => by simp [AllCoreL, Nodes.toList, allCoreL_iff xs]

theorem allCoreP_iff : ∀ (ps : Pairs), AllCoreP ps ↔ ∀ p ∈ ps.toList, AllCore p.1 ∧ AllCore p.2
  | .nil => by simp [AllCoreP, Pairs.toList]
  | .cons k v r => by
    simp only [AllCoreP, Pairs.toList, List.mem_cons, allCoreP_iff r]
    constructor
    · rintro ⟨h1, h2, h3⟩ p (rfl | hp)
      · exact ⟨h1, h2⟩
      · exact h3 p hp
    · intro h
      exact ⟨(h (k, v) (Or.inl rfl)).1, (h (k, v) (Or.inl rfl)).2, fun p hp => h p (Or.inr hp)⟩

theorem plainL_ofList : ∀ (l : List PyVal), (∀ x ∈ l, Plain x) → PlainL (PyVals.ofList l)
  | [], _ => by simp [PyVals.ofList, PlainL]
  | x :: xs, h => by
    simp only [PyVals.ofList, PlainL]
    exact ⟨h x List.mem_cons_self, plainL_ofList xs (fun y hy => h y (List.mem_cons_of_mem _ hy))⟩

theorem plainK_ofList : ∀ (l : List (PyVal × PyVal)), (∀ e ∈ l, Plain e.1 ∧ Plain e.2) →
    PlainK (PyKVs.ofList l)
  | [], _ => by simp [PyKVs.ofList, PlainK]
  | (k, v) :: r, h => by
    simp only [PyKVs.ofList, PlainK]
    exact ⟨(h (k, v) List.mem_cons_self).1, (h (k, v) List.mem_cons_self).2,
      plainK_ofList r (fun e he => h e (List.mem_cons_of_mem _ he))⟩

/-! ### no user class is ever looked up for a core tag -/

theorem hasPrefix_core_not_bang (t : String) (h : hasPrefix corePrefix t = true) : hasPrefix "!" t = false := by
  unfold hasPrefix at *
  have : corePrefix.toList = 't' :: "ag:yaml.org,2002:".toList := by decide
  rw [this] at h
  cases ht : t.toList with
  | nil => simp [ht] at h
  | cons c cs =>
    rw [ht] at h
    simp only [List.isPrefixOf, Bool.and_eq_true, beq_iff_eq] at h
    have hb : "!".toList = ['!'] := by decide
    rw [hb]
    simp only [List.isPrefixOf]
    rw [← h.1]
    decide

theorem byTag_core (env : Env) (t : String) (h : hasPrefix corePrefix t = true) : env.byTag t = none := by
  simp [Env.byTag, hasPrefix_core_not_bang t h]

theorem core_ne_path (t : String) (h : hasPrefix corePrefix t = true) : (t == "!Path") = false := by
  cases hb : t == "!Path"
  · rfl
  · have : t = "!Path" := by simpa using hb
    subst this
    exact absurd h (by decide)

end YatimlModel

namespace YatimlModel
open NodeOps

def CorePair (p : Node × Node) : Prop := AllCore p.1 ∧ AllCore p.2

theorem allCore_setTag (n : Node) (t : String) (ht : hasPrefix corePrefix t = true) (h : AllCore n) :
    AllCore (n.setTag t) := by
  cases n <;> simp_all [Node.setTag, AllCore]

/-! ### flatten_mapping keeps every tag core -/

theorem mergeSeqItems_core (flat : List (Node × Node) → Option (List (Node × Node)))
    (hf : ∀ ps f, (∀ p ∈ ps, CorePair p) → flat ps = some f → ∀ p ∈ f, CorePair p) :
    ∀ (xs : List Node) (l : List (List (Node × Node))), (∀ x ∈ xs, AllCore x) →
      mergeSeqItems flat xs = some l → ∀ f ∈ l, ∀ p ∈ f, CorePair p := by
  intro xs
  induction xs with
  | nil => intro l _ h; simp [mergeSeqItems] at h; subst h; intro f hf'; cases hf'
  | cons x xs ih =>
    intro l hx h
    unfold mergeSeqItems at h
    split at h
    · rename_i t qs m
      split at h
      · rename_i f r hfl hr
        simp only [Option.some.injEq] at h
        subst h
        intro g hg
        rcases List.mem_cons.mp hg with rfl | hg
        · have hxc := hx _ List.mem_cons_self
          simp only [AllCore] at hxc
          exact hf qs.toList g ((allCoreP_iff qs).mp hxc.2) hfl
        · exact ih r (fun y hy => hx y (List.mem_cons_of_mem _ hy)) hr g hg
      · cases h
    · cases h

theorem mergedOf_core (flat : List (Node × Node) → Option (List (Node × Node)))
    (hf : ∀ ps f, (∀ p ∈ ps, CorePair p) → flat ps = some f → ∀ p ∈ f, CorePair p)
    (v : Node) (hv : AllCore v) (f : List (Node × Node)) (h : mergedOf flat v = some f) :
    ∀ p ∈ f, CorePair p := by
  cases v with
  | scalar t s m => simp [mergedOf] at h
  | map t qs m =>
    simp only [mergedOf] at h
    simp only [AllCore] at hv
    exact hf qs.toList f ((allCoreP_iff qs).mp hv.2) h
  | seq t xs m =>
    simp only [mergedOf, Option.map_eq_some_iff] at h
    obtain ⟨l, hl, rfl⟩ := h
    simp only [AllCore] at hv
    have := mergeSeqItems_core flat hf xs.toList l ((allCoreL_iff xs).mp hv.2) hl
    intro p hp
    simp only [List.mem_flatten, List.mem_reverse] at hp
    obtain ⟨g, hg, hpg⟩ := hp
    exact this g hg p hpg

theorem flattenStep_core (flat : List (Node × Node) → Option (List (Node × Node)))
    (hf : ∀ ps f, (∀ p ∈ ps, CorePair p) → flat ps = some f → ∀ p ∈ f, CorePair p) :
    ∀ (ps : List (Node × Node)) (r : List (Node × Node) × List (Node × Node)),
      (∀ p ∈ ps, CorePair p) → flattenStep flat ps = some r →
      (∀ p ∈ r.1, CorePair p) ∧ (∀ p ∈ r.2, CorePair p) := by
  intro ps
  induction ps with
  | nil =>
    intro r _ h
    simp [flattenStep] at h
    subst h
    exact ⟨(by intro p hp; cases hp), (by intro p hp; cases hp)⟩
  | cons p ps ih =>
    intro r hps h
    unfold flattenStep at h
    split at h
    · cases h
    · rename_i merge rest hrec
      have ⟨h1, h2⟩ := ih (merge, rest) (fun q hq => hps q (List.mem_cons_of_mem _ hq)) hrec
      have hp := hps p List.mem_cons_self
      split at h
      · split at h
        · rename_i f hm
          simp only [Option.some.injEq] at h
          subst h
          refine ⟨?_, h2⟩
          intro q hq
          rcases List.mem_append.mp hq with hq | hq
          · exact mergedOf_core flat hf p.2 hp.2 f hm q hq
          · exact h1 q hq
        · cases h
      · split at h
        · simp only [Option.some.injEq] at h
          subst h
          refine ⟨h1, ?_⟩
          intro q hq
          rcases List.mem_cons.mp hq with rfl | hq
          · exact ⟨allCore_setTag _ _ (by decide) hp.1, hp.2⟩
          · exact h2 q hq
        · simp only [Option.some.injEq] at h
          subst h
          refine ⟨h1, ?_⟩
          intro q hq
          rcases List.mem_cons.mp hq with rfl | hq
          · exact hp
          · exact h2 q hq

theorem flattenPairs_core : ∀ (fuel : Nat) (ps f : List (Node × Node)),
    (∀ p ∈ ps, CorePair p) → flattenPairs fuel ps = some f → ∀ p ∈ f, CorePair p := by
  intro fuel
  induction fuel with
  | zero => intro ps f _ h; simp [flattenPairs] at h
  | succ fuel ih =>
    intro ps f hps h
    simp only [flattenPairs, Option.map_eq_some_iff] at h
    obtain ⟨r, hr, rfl⟩ := h
    have ⟨h1, h2⟩ := flattenStep_core (flattenPairs fuel) (fun ps f => ih ps f) ps r hps hr
    intro p hp
    rcases List.mem_append.mp hp with hp | hp
    · exact h1 p hp
    · exact h2 p hp

/-! ### construction of a core-tagged tree -/

/-- the statement proved about a sub-construction -/
def QuietPlain (r : ConsRes) : Prop :=
  match r with
  | .ok o => o.calls = [] ∧ Plain o.value
  | .error (_, cs) => cs = []

theorem consItems_quiet (cons : Node → ConsRes) :
    ∀ (xs : List Node) (c0 : List Call), (∀ x ∈ xs, QuietPlain (cons x)) →
      (∀ ys cs, consItems cons xs c0 = .ok (ys, cs) → cs = c0 ∧ ∀ y ∈ ys, Plain y) ∧
      (∀ e cs, consItems cons xs c0 = .error (e, cs) → cs = c0) := by
  intro xs
  induction xs with
  | nil =>
    intro c0 _
    refine ⟨?_, ?_⟩
    · intro ys cs h
      simp only [consItems, Except.ok.injEq, Prod.mk.injEq] at h
      refine ⟨h.2.symm, ?_⟩
      rw [← h.1]; intro y hy; cases hy
    · intro e cs h; simp [consItems] at h
  | cons x xs ih =>
    intro c0 h
    have hx := h x List.mem_cons_self
    unfold QuietPlain at hx
    refine ⟨?_, ?_⟩
    · intro ys cs hc
      unfold consItems at hc
      split at hc
      · cases hc
      · rename_i o ho
        rw [ho] at hx
        have ih' := ih (c0 ++ o.calls) (fun y hy => h y (List.mem_cons_of_mem _ hy))
        split at hc
        · cases hc
        · rename_i ys' cs' hok
          simp only [Except.ok.injEq, Prod.mk.injEq] at hc
          have := ih'.1 ys' cs' hok
          rw [hx.1, List.append_nil] at this
          refine ⟨by rw [← hc.2]; exact this.1, ?_⟩
          rw [← hc.1]
          intro y hy
          rcases List.mem_cons.mp hy with rfl | hy
          · exact hx.2
          · exact this.2 y hy
    · intro e cs hc
      unfold consItems at hc
      split at hc
      · rename_i e' cs' he
        rw [he] at hx
        simp only [Except.error.injEq, Prod.mk.injEq] at hc
        rw [← hc.2, hx]; simp
      · rename_i o ho
        rw [ho] at hx
        have ih' := ih (c0 ++ o.calls) (fun y hy => h y (List.mem_cons_of_mem _ hy))
        split at hc
        · rename_i err herr
          obtain ⟨e', cs'⟩ := err
          simp only [Except.error.injEq, Prod.mk.injEq] at hc
          have := ih'.2 e' cs' herr
          rw [hx.1, List.append_nil] at this
          rw [← hc.2]; exact this
        · cases hc

theorem dictSet_plain (acc : List (PyVal × PyVal)) (k v : PyVal)
    (ha : ∀ e ∈ acc, Plain e.1 ∧ Plain e.2) (hk : Plain k) (hv : Plain v) :
    ∀ e ∈ dictSet acc k v, Plain e.1 ∧ Plain e.2 := by
  induction acc with
  | nil => intro e he; simp [dictSet] at he; subst he; exact ⟨hk, hv⟩
  | cons a rest ih =>
    obtain ⟨k', v'⟩ := a
    intro e he
    simp only [dictSet] at he
    have ha' := ha (k', v') List.mem_cons_self
    split at he
    · rcases List.mem_cons.mp he with rfl | he
      · exact ⟨ha'.1, hv⟩
      · exact ha e (List.mem_cons_of_mem _ he)
    · rcases List.mem_cons.mp he with rfl | he
      · exact ha'
      · exact ih (fun x hx => ha x (List.mem_cons_of_mem _ hx)) e he

theorem consPairs_quiet (cons : Node → ConsRes) :
    ∀ (ps : List (Node × Node)) (acc : List (PyVal × PyVal)) (c0 : List Call),
      (∀ p ∈ ps, QuietPlain (cons p.1) ∧ QuietPlain (cons p.2)) →
      (∀ e ∈ acc, Plain e.1 ∧ Plain e.2) →
      (∀ kvs cs, consPairs cons ps acc c0 = .ok (kvs, cs) → cs = c0 ∧ ∀ e ∈ kvs, Plain e.1 ∧ Plain e.2) ∧
      (∀ e cs, consPairs cons ps acc c0 = .error (e, cs) → cs = c0) := by
  intro ps
  induction ps with
  | nil =>
    intro acc c0 _ ha
    refine ⟨?_, ?_⟩
    · intro kvs cs h
      simp only [consPairs, Except.ok.injEq, Prod.mk.injEq] at h
      refine ⟨h.2.symm, ?_⟩
      rw [← h.1]; exact ha
    · intro e cs h; simp [consPairs] at h
  | cons p ps ih =>
    intro acc c0 h ha
    obtain ⟨k, v⟩ := p
    have ⟨hk, hv⟩ := h (k, v) List.mem_cons_self
    unfold QuietPlain at hk hv
    simp only at hk hv
    refine ⟨?_, ?_⟩
    · intro kvs cs hc
      unfold consPairs at hc
      split at hc
      · cases hc
      · rename_i ko hko
        rw [hko] at hk
        split at hc
        · cases hc
        · split at hc
          · cases hc
          · rename_i vo hvo
            rw [hvo] at hv
            have := (ih (dictSet acc ko.value vo.value) (c0 ++ ko.calls ++ vo.calls)
              (fun q hq => h q (List.mem_cons_of_mem _ hq))
              (dictSet_plain acc _ _ ha hk.2 hv.2)).1 kvs cs hc
            simpa [hk.1, hv.1] using this
    · intro e cs hc
      unfold consPairs at hc
      split at hc
      · rename_i e' cs' he
        rw [he] at hk
        simp only [Except.error.injEq, Prod.mk.injEq] at hc
        rw [← hc.2, hk]; simp
      · rename_i ko hko
        rw [hko] at hk
        split at hc
        · simp only [Except.error.injEq, Prod.mk.injEq] at hc
          rw [← hc.2, hk.1]; simp
        · split at hc
          · rename_i e' cs' he
            rw [he] at hv
            simp only [Except.error.injEq, Prod.mk.injEq] at hc
            rw [← hc.2, hk.1, hv]; simp
          · rename_i vo hvo
            rw [hvo] at hv
            have := (ih (dictSet acc ko.value vo.value) (c0 ++ ko.calls ++ vo.calls)
              (fun q hq => h q (List.mem_cons_of_mem _ hq))
              (dictSet_plain acc _ _ ha hk.2 hv.2)).2 e cs hc
            simpa [hk.1, hv.1] using this

theorem constructScalarCore_plain (ext : Ext) (t v : String) (m : Mark) (x : PyVal)
    (h : constructScalarCore ext t v m = .ok x) : Plain x := by
  unfold constructScalarCore at h
  repeat' split at h
  all_goals first
    | (cases h; done)
    | (cases h; simp [Plain])

/-- **Plain data, no constructor calls.**  A tree with core tags only constructs to plain data
without calling any user constructor (also when it fails half-way). -/
theorem construct_quiet (env : Env) (tbl : List Entry) :
    ∀ (fuel : Nat) (n : Node), AllCore n → QuietPlain (construct env tbl fuel n) := by
  intro fuel
  induction fuel with
  | zero => intro n _; simp [construct, QuietPlain]
  | succ fuel ih =>
    intro n hn
    cases n with
    | scalar t v m =>
      simp only [AllCore] at hn
      simp only [construct, Node.tag, byTag_core env t hn, core_ne_path t hn]
      cases hc : constructScalarCore env.ext t v m with
      | ok x => simp [QuietPlain, constructScalarCore_plain env.ext t v m x hc]
      | error e => simp [QuietPlain]
    | seq t xs m =>
      simp only [AllCore] at hn
      have hq := consItems_quiet (construct env tbl fuel) xs.toList []
        (fun x hx => ih x ((allCoreL_iff xs).mp hn.2 x hx))
      unfold construct
      simp only [Node.tag, byTag_core env t hn.1, core_ne_path t hn.1, Bool.false_eq_true, if_false]
      by_cases ht : (t == tSeq) = true
      · simp only [ht, if_true]
        cases hc : consItems (construct env tbl fuel) xs.toList [] with
        | error err =>
          obtain ⟨e, cs⟩ := err
          simpa [QuietPlain] using hq.2 e cs hc
        | ok r =>
          obtain ⟨ys, calls⟩ := r
          have := hq.1 ys calls hc
          simp only [QuietPlain, this.1, true_and, Plain]
          exact plainL_ofList ys this.2
      · simp [ht, QuietPlain]
    | map t ps m =>
      simp only [AllCore] at hn
      unfold construct
      simp only [Node.tag, byTag_core env t hn.1, core_ne_path t hn.1, Bool.false_eq_true, if_false]
      by_cases ht : (t == tMap) = true
      · simp only [ht, if_true]
        cases hflat : flattenPairs (fuel + 1) ps.toList with
        | none => simp [QuietPlain]
        | some flat =>
          have hcore := flattenPairs_core (fuel + 1) ps.toList flat ((allCoreP_iff ps).mp hn.2) hflat
          have hq := consPairs_quiet (construct env tbl fuel) flat [] []
            (fun p hp => ⟨ih p.1 (hcore p hp).1, ih p.2 (hcore p hp).2⟩) (by intro e he; cases he)
          simp only
          cases hc : consPairs (construct env tbl fuel) flat [] [] with
          | error err =>
            obtain ⟨e, cs⟩ := err
            simpa [QuietPlain] using hq.2 e cs hc
          | ok r =>
            obtain ⟨kvs, calls⟩ := r
            have := hq.1 kvs calls hc
            simp only [QuietPlain, this.1, true_and, Plain]
            exact plainK_ofList kvs this.2
      · simp [ht, QuietPlain]

end YatimlModel
