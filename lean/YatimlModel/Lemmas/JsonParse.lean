import YatimlModel.Spec.JsonParse
import YatimlModel.Model.Json
import YatimlModel.Lemmas.JsonStringLemmas
/-!
The reference parser of `Spec/JsonParse` reads back what the models write:

* `parseStrBody_dumps`: for every sequence of Unicode scalar values `s` and both `ensure_ascii`
  modes, the string token `json.dumps` (as modelled in `Model/JsonString`) writes for `s` denotes `s`;
* `parse_render`: for every tree, indent configuration and line break, the text of the recursive
  renderer (which the emitter machine refines, `C07_machine_refines_renderer`) parses to the JSON
  value of the tree.
-/
namespace YatimlModel.JsonParse
open YatimlModel.JsonString YatimlModel.Json

/-! ### strings -/

/-- a Unicode scalar value: a code point that is not a surrogate (what a Lean `Char`, and every
character of a well-formed Python `str`, is) -/
def IsScalarValue (c : Nat) : Prop := c < 55296 ∨ (57343 < c ∧ c < 1114112)

theorem hexVal_hexDigit (n : Nat) (h : n < 16) : hexVal (hexDigit n) = some n := by
  unfold hexVal hexDigit
  split
  · rw [if_pos (by omega)]; congr 1; omega
  · rw [if_neg (by omega), if_pos (by omega)]; congr 1; omega

theorem hex4Val_hex4 (n : Nat) (h : n < 65536) :
    hex4Val (hexDigit (n / 4096 % 16)) (hexDigit (n / 256 % 16)) (hexDigit (n / 16 % 16))
      (hexDigit (n % 16)) = some n := by
  unfold hex4Val
  rw [hexVal_hexDigit _ (Nat.mod_lt _ (by decide)), hexVal_hexDigit _ (Nat.mod_lt _ (by decide)),
    hexVal_hexDigit _ (Nat.mod_lt _ (by decide)), hexVal_hexDigit _ (Nat.mod_lt _ (by decide))]
  simp only [Option.some.injEq]
  omega

theorem lowSurr_not_high (n : Nat) (r : List Nat) (h : ¬ (55296 ≤ n ∧ n ≤ 56319)) :
    lowSurr n r = none := by
  unfold lowSurr; rw [if_neg h]

theorem parse_uEsc_none (f n : Nat) (r : List Nat) (h : n < 65536) (hl : lowSurr n r = none) :
    parseStrBody (f + 1) (uEsc n ++ r) = consTo n (parseStrBody f r) := by
  simp [uEsc, hex4, parseStrBody, hex4Val_hex4 n h, hl]

theorem parse_uEsc_some (f n cp : Nat) (r r' : List Nat) (h : n < 65536) (hl : lowSurr n r = some (cp, r')) :
    parseStrBody (f + 1) (uEsc n ++ r) = consTo cp (parseStrBody f r') := by
  simp [uEsc, hex4, parseStrBody, hex4Val_hex4 n h, hl]

theorem lowSurr_uEsc (hi lo : Nat) (r : List Nat) (hh : 55296 ≤ hi ∧ hi ≤ 56319)
    (hl : 56320 ≤ lo ∧ lo ≤ 57343) :
    lowSurr hi (uEsc lo ++ r) = some (65536 + (hi - 55296) * 1024 + (lo - 56320), r) := by
  unfold lowSurr
  rw [if_pos hh]
  simp only [uEsc, hex4, List.cons_append, List.nil_append, and_self, if_true]
  rw [hex4Val_hex4 _ (by omega)]
  simp only
  rw [if_pos hl]

theorem parse_plain (f c : Nat) (r : List Nat) (h1 : c ≠ 34) (h2 : c ≠ 92) (h3 : 32 ≤ c) :
    parseStrBody (f + 1) (c :: r) = consTo c (parseStrBody f r) := by
  simp [parseStrBody, h1, h2, h3]

theorem shortEsc_unesc (c e : Nat) (h : shortEsc c = some e) : unescLetter e = some c ∧ e ≠ 117 := by
  unfold shortEsc at h
  repeat' split at h
  all_goals first | (cases h; simp_all [unescLetter]) | cases h

theorem parse_short (f c e : Nat) (r : List Nat) (h : shortEsc c = some e) :
    parseStrBody (f + 1) (92 :: e :: r) = consTo c (parseStrBody f r) := by
  obtain ⟨h1, h2⟩ := shortEsc_unesc c e h
  simp [parseStrBody, h1, h2]

theorem parse_pair (f c : Nat) (r : List Nat) (h1 : 65536 ≤ c) (h2 : c < 1114112) :
    parseStrBody (f + 1) (uEsc (55296 + (c - 65536) / 1024 % 1024) ++ (uEsc (56320 + (c - 65536) % 1024) ++ r))
      = consTo c (parseStrBody f r) := by
  generalize hhi : 55296 + (c - 65536) / 1024 % 1024 = hi
  generalize hlo : 56320 + (c - 65536) % 1024 = lo
  have e : 65536 + (hi - 55296) * 1024 + (lo - 56320) = c := by omega
  have := lowSurr_uEsc hi lo r (by omega) (by omega)
  rw [e] at this
  exact parse_uEsc_some f hi c _ r (by omega) this

theorem parse_escAscii (f c : Nat) (r : List Nat) (hc : IsScalarValue c) :
    parseStrBody (f + 1) (escAscii c ++ r) = consTo c (parseStrBody f r) := by
  unfold escAscii
  split
  · rename_i e he
    exact parse_short f c e r he
  · rename_i hn
    obtain ⟨h1, h2⟩ := shortEsc_none c hn
    split
    · rename_i hr
      exact parse_plain f c r h1 h2 hr.1
    · split
      · rename_i hlt
        exact parse_uEsc_none f c r hlt (lowSurr_not_high c r (by unfold IsScalarValue at hc; omega))
      · rw [List.append_assoc]
        exact parse_pair f c r (by omega) (by unfold IsScalarValue at hc; omega)

theorem parse_escUni (f c : Nat) (r : List Nat) (_hc : IsScalarValue c) :
    parseStrBody (f + 1) (escUni c ++ r) = consTo c (parseStrBody f r) := by
  unfold escUni
  split
  · rename_i e he
    exact parse_short f c e r he
  · rename_i hn
    obtain ⟨h1, h2⟩ := shortEsc_none c hn
    split
    · rename_i hlt
      exact parse_uEsc_none f c r (by omega) (lowSurr_not_high c r (by omega))
    · rename_i hr
      exact parse_plain f c r h1 h2 (by omega)

theorem parse_flatMap (esc : Nat → List Nat)
    (hesc : ∀ f c r, IsScalarValue c → parseStrBody (f + 1) (esc c ++ r) = consTo c (parseStrBody f r)) :
    ∀ (s : List Nat) (f : Nat) (rest : List Nat), (∀ c ∈ s, IsScalarValue c) → s.length + 1 ≤ f →
      parseStrBody f (s.flatMap esc ++ 34 :: rest) = some (s, rest)
  | [], f, rest, _, hf => by
    obtain ⟨f', rfl⟩ : ∃ f', f = f' + 1 := ⟨f - 1, by simp at hf; omega⟩
    simp [parseStrBody]
  | c :: s, f, rest, hs, hf => by
    obtain ⟨f', rfl⟩ : ∃ f', f = f' + 1 := ⟨f - 1, by simp at hf; omega⟩
    simp only [List.flatMap_cons, List.append_assoc]
    rw [hesc _ _ _ (hs c (by simp)),
      parse_flatMap esc hesc s f' rest (fun d hd => hs d (by simp [hd])) (by simp at hf; omega)]
    rfl

/-- **The string token `json.dumps` writes denotes the string.**  For every sequence of Unicode
scalar values and both `ensure_ascii` settings, reading the body of the token (escapes, `\uXXXX`,
surrogate pairs) gives back the code points, and stops right after the closing quotation mark. -/
theorem parseStrBody_dumps (a : Bool) (s : List Nat) (rest : List Nat) (f : Nat)
    (hs : ∀ c ∈ s, IsScalarValue c) (hf : s.length + 1 ≤ f) :
    ∃ body, dumps a s ++ rest = 34 :: body ∧ parseStrBody f body = some (s, rest) := by
  refine ⟨s.flatMap (if a then escAscii else escUni) ++ 34 :: rest, by simp [dumps], ?_⟩
  cases a
  · exact parse_flatMap _ parse_escUni s f rest hs hf
  · exact parse_flatMap _ parse_escAscii s f rest hs hf

theorem esc_nonempty_ascii (c : Nat) : 1 ≤ (escAscii c).length := by
  unfold escAscii; split <;> (try split) <;> (try split) <;> simp [uEsc, hex4]
theorem esc_nonempty_uni (c : Nat) : 1 ≤ (escUni c).length := by
  unfold escUni; split <;> (try split) <;> simp [uEsc, hex4]

theorem length_flatMap_ge (esc : Nat → List Nat) (h : ∀ c, 1 ≤ (esc c).length) (s : List Nat) :
    s.length ≤ (s.flatMap esc).length := by
  induction s with
  | nil => simp
  | cons c s ih => simp only [List.flatMap_cons, List.length_append, List.length_cons]; have := h c; omega

/-! ### texts as code points -/

-- `codes` (the code points of a string) is `YatimlModel.codes` of `Model/Regex`
def chunkCodes (lb : String) (c : Chunk) : List Nat := codes (c.text lb)
def codesOf (lb : String) (cs : List Chunk) : List Nat := cs.flatMap (chunkCodes lb)

theorem codes_append (a b : String) : codes (a ++ b) = codes a ++ codes b := by
  simp [codes, String.toList_append]

@[simp] theorem codesOf_nil (lb : String) : codesOf lb [] = [] := rfl
@[simp] theorem codesOf_cons (lb : String) (c : Chunk) (cs : List Chunk) :
    codesOf lb (c :: cs) = chunkCodes lb c ++ codesOf lb cs := by simp [codesOf]
@[simp] theorem codesOf_append (lb : String) (a b : List Chunk) :
    codesOf lb (a ++ b) = codesOf lb a ++ codesOf lb b := by simp [codesOf]

theorem codes_textOf_acc (lb : String) (cs : List Chunk) (acc : String) :
    codes (cs.foldl (fun acc c => acc ++ c.text lb) acc) = codes acc ++ codesOf lb cs := by
  induction cs generalizing acc with
  | nil => simp
  | cons c cs ih => simp [ih, codes_append, chunkCodes]

/-- the code points of the text the emitter writes are those of its chunks, in order -/
theorem codes_textOf (lb : String) (cs : List Chunk) : codes (textOf lb cs) = codesOf lb cs := by
  unfold textOf
  rw [codes_textOf_acc]
  simp [codes]

theorem codes_scalar (s : String) : ∀ c ∈ codes s, IsScalarValue c := by
  intro c hc
  simp only [codes, List.mem_map] at hc
  obtain ⟨ch, _, rfl⟩ := hc
  exact ch.valid

/-! ### white space -/

def AllWs (w : List Nat) : Prop := ∀ c ∈ w, isWs c = true

theorem AllWs.nil : AllWs [] := by intro c hc; cases hc
theorem AllWs.append {a b : List Nat} (ha : AllWs a) (hb : AllWs b) : AllWs (a ++ b) := by
  intro c hc; rcases List.mem_append.mp hc with h | h
  · exact ha c h
  · exact hb c h

theorem skipWs_append_ws (w x : List Nat) (h : AllWs w) : skipWs (w ++ x) = skipWs x := by
  induction w with
  | nil => rfl
  | cons c w ih =>
    have hc : isWs c = true := h c (by simp)
    simp only [List.cons_append, skipWs, hc, if_true]
    exact ih (fun d hd => h d (by simp [hd]))

theorem skipWs_cons_nonws (c : Nat) (r : List Nat) (h : isWs c = false) : skipWs (c :: r) = c :: r := by
  simp [skipWs, h]

theorem parseValue_ws (f : Nat) (w cs : List Nat) (h : AllWs w) :
    parseValue f (w ++ cs) = parseValue f cs := by
  cases f with
  | zero => simp [parseValue]
  | succ f => simp only [parseValue, skipWs_append_ws w cs h]

theorem parseElems_ws (f : Nat) (w cs : List Nat) (h : AllWs w) :
    parseElems f (w ++ cs) = parseElems f cs := by
  cases f with
  | zero => simp [parseElems]
  | succ f => simp only [parseElems, parseValue_ws f w cs h]

theorem parseMembers_ws (f : Nat) (w cs : List Nat) (h : AllWs w) :
    parseMembers f (w ++ cs) = parseMembers f cs := by
  cases f with
  | zero => simp [parseMembers]
  | succ f => simp only [parseMembers, skipWs_append_ws w cs h]

theorem allWs_replicate (n : Nat) : AllWs (List.replicate n 32) := by
  intro c hc
  have := List.eq_of_mem_replicate hc
  subst this; rfl

theorem allWs_endl (cfg : Cfg) (lb : String) (hlb : AllWs (codes lb)) (n : Nat) :
    AllWs (codesOf lb (endl cfg n)) := by
  unfold endl
  split
  · simp only [codesOf_cons, codesOf_nil, List.append_nil, chunkCodes, Chunk.text, codes_append]
    refine AllWs.append hlb ?_
    have : codes (String.ofList (List.replicate n ' ')) = List.replicate n 32 := by
      simp [codes, String.toList_ofList]
    rw [this]; exact allWs_replicate n
  · exact AllWs.nil

/-! ### the JSON value of a represented tree, and what a tree must satisfy -/

def scalarJV (f : TextFns) : SK → String → JV
  | .str, v => .str (codes v)
  | .timestamp, v => .str (codes v)
  | .null, _ => .null
  | .bool, v => .bool (f.lower v == "true")
  | .other, v => .num (codes v)

def keyOf : JT → List Nat
  | .scalar _ v => codes v
  | _ => []

mutual
def toJV (f : TextFns) : JT → JV
  | .scalar k v => scalarJV f k v
  | .arr xs => .arr (toJVs f xs)
  | .obj kvs => .obj (toJKVs f kvs)
def toJVs (f : TextFns) : JL → JVs
  | .nil => .nil
  | .cons x xs => .cons (toJV f x) (toJVs f xs)
def toJKVs (f : TextFns) : JKL → JKVs
  | .nil => .nil
  | .cons k v rest => .cons (keyOf k) (toJV f v) (toJKVs f rest)
end

/-- a number text: non-empty, number characters only, in the language of RFC 8259's `number` -/
def NumText (cs : List Nat) : Prop :=
  cs ≠ [] ∧ (∀ c ∈ cs, isNumChar c = true) ∧ Re.rmatch numberRe cs = true

/-- what the representers guarantee of a scalar, as far as JSON is concerned: a bool is written
`true` / `false` (after `str.lower`), a verbatim scalar is a number text -/
def WfScalar (f : TextFns) : SK → String → Prop
  | .bool, v => f.lower v = "true" ∨ f.lower v = "false"
  | .other, v => NumText (codes v)
  | _, _ => True

mutual
def WfT (f : TextFns) : JT → Prop
  | .scalar k v => WfScalar f k v
  | .arr xs => WfL f xs
  | .obj kvs => WfK f kvs
def WfL (f : TextFns) : JL → Prop
  | .nil => True
  | .cons x xs => WfT f x ∧ WfL f xs
def WfK (f : TextFns) : JKL → Prop
  | .nil => True
  | .cons k v rest => (∃ s, k = JT.scalar SK.str s) ∧ WfT f v ∧ WfK f rest
end

mutual
def sz : JT → Nat
  | .scalar _ _ => 1
  | .arr xs => 1 + szL xs
  | .obj kvs => 1 + szK kvs
def szL : JL → Nat
  | .nil => 0
  | .cons x xs => 1 + sz x + szL xs
def szK : JKL → Nat
  | .nil => 0
  | .cons _ v rest => 1 + sz v + szK rest
end

/-- what follows a number must not continue it -/
def StopsNum (rest : List Nat) : Prop := ∀ c r, rest = c :: r → isNumChar c = false

theorem StopsNum.nil : StopsNum [] := by intro c r h; cases h
theorem StopsNum.cons (c : Nat) (r : List Nat) (h : isNumChar c = false) : StopsNum (c :: r) := by
  intro c' r' e; cases e; exact h
theorem isWs_not_num (c : Nat) (h : isWs c = true) : isNumChar c = false := by
  simp only [isWs, Bool.or_eq_true, beq_iff_eq] at h
  rcases h with ((h | h) | h) | h <;> subst h <;> decide
theorem StopsNum.ws_append (w x : List Nat) (hw : AllWs w) (hx : StopsNum x) : StopsNum (w ++ x) := by
  cases w with
  | nil => exact hx
  | cons c w => exact StopsNum.cons c _ (isWs_not_num c (hw c (by simp)))

theorem spanNum_all (cs rest : List Nat) (h : ∀ c ∈ cs, isNumChar c = true) (hr : StopsNum rest) :
    spanNum (cs ++ rest) = (cs, rest) := by
  induction cs with
  | nil =>
    cases rest with
    | nil => rfl
    | cons c r => simp [spanNum, hr c r rfl]
  | cons c cs ih =>
    have hc := h c (by simp)
    have := ih (fun d hd => h d (by simp [hd]))
    simp [spanNum, hc, this]

/-- the text functions of the emitter agree with the model of `json.dumps` (mode `a`) -/
def DumpsIs (f : TextFns) (a : Bool) : Prop := ∀ v, codes (f.dumps v) = JsonString.dumps a (codes v)

theorem parse_string_token (a : Bool) (s rest : List Nat) (fuel : Nat) (hs : ∀ c ∈ s, IsScalarValue c) :
    parseValue (fuel + 1) (JsonString.dumps a s ++ rest) = some (JV.str s, rest) := by
  have hd : JsonString.dumps a s ++ rest
      = 34 :: (s.flatMap (if a then escAscii else escUni) ++ 34 :: rest) := by simp [JsonString.dumps]
  rw [hd]
  have hlen : s.length + 1 ≤ (s.flatMap (if a then escAscii else escUni) ++ 34 :: rest).length + 1 := by
    have : s.length ≤ (s.flatMap (if a then escAscii else escUni)).length := by
      cases a
      · exact length_flatMap_ge _ esc_nonempty_uni s
      · exact length_flatMap_ge _ esc_nonempty_ascii s
    simp only [List.length_append, List.length_cons]; omega
  have hp : parseStrBody ((s.flatMap (if a then escAscii else escUni) ++ 34 :: rest).length + 1)
      (s.flatMap (if a then escAscii else escUni) ++ 34 :: rest) = some (s, rest) := by
    cases a
    · exact parse_flatMap _ parse_escUni s _ rest hs hlen
    · exact parse_flatMap _ parse_escAscii s _ rest hs hlen
  simp only [parseValue, skipWs_cons_nonws 34 _ (by decide), if_true, hp]

theorem isNumChar_cases (c : Nat) (h : isNumChar c = true) :
    isWs c = false ∧ c ≠ 34 ∧ c ≠ 91 ∧ c ≠ 123 ∧ c ≠ 116 ∧ c ≠ 102 ∧ c ≠ 110 ∧ c ≠ 93 ∧ c ≠ 125 := by
  simp only [isNumChar, Bool.or_eq_true, Bool.and_eq_true, decide_eq_true_eq, beq_iff_eq] at h
  have hw : isWs c = false := by
    simp only [isWs, Bool.or_eq_false_iff, beq_eq_false_iff_ne]; omega
  refine ⟨hw, ?_⟩
  omega

theorem parse_scalar (f : TextFns) (a : Bool) (hd : DumpsIs f a) (k : SK) (v : String)
    (rest : List Nat) (fuel : Nat) (hw : WfScalar f k v) (hr : StopsNum rest) :
    parseValue (fuel + 1) (codes (scalarText f k v) ++ rest) = some (scalarJV f k v, rest) := by
  cases k with
  | str => simp only [scalarText, scalarJV, hd v]; exact parse_string_token a _ rest fuel (codes_scalar v)
  | timestamp => simp only [scalarText, scalarJV, hd v]; exact parse_string_token a _ rest fuel (codes_scalar v)
  | null =>
    have : codes "null" = [110, 117, 108, 108] := by decide
    simp [scalarText, scalarJV, this, parseValue, skipWs, isWs]
  | bool =>
    simp only [WfScalar] at hw
    rcases hw with h | h
    · have : codes "true" = [116, 114, 117, 101] := by decide
      simp [scalarText, scalarJV, h, this, parseValue, skipWs, isWs]
    · have : codes "false" = [102, 97, 108, 115, 101] := by decide
      simp [scalarText, scalarJV, h, this, parseValue, skipWs, isWs]
  | other =>
    obtain ⟨hne, hall, hm⟩ := hw
    simp only [scalarText, scalarJV]
    cases hcs : codes v with
    | nil => exact absurd hcs hne
    | cons c r =>
      have hc : isNumChar c = true := hall c (by simp [hcs])
      obtain ⟨h0, h1, h2, h3, h4, h5, h6, _, _⟩ := isNumChar_cases c hc
      have hsp := spanNum_all (codes v) rest hall hr
      rw [hcs] at hsp hm
      simp only [List.cons_append] at hsp
      simp only [List.cons_append, parseValue, skipWs_cons_nonws c _ h0, h1, h2, h3, h4, h5, h6,
        if_false, hc, if_true, hsp, hm]

/-! ### the rendered tree -/

/-- how `Dumper.__init__` sets `_kv_sep` -/
def WfCfg (cfg : Cfg) : Prop := cfg.kvsep = if cfg.indented then ": " else ":"

theorem kvsep_codes (cfg : Cfg) (h : WfCfg cfg) :
    ∃ w, codes cfg.kvsep = 58 :: w ∧ AllWs w := by
  unfold WfCfg at h
  split at h
  · exact ⟨[32], by rw [h]; decide, by intro c hc; simp at hc; subst hc; rfl⟩
  · exact ⟨[], by rw [h]; decide, AllWs.nil⟩

@[simp] theorem cc_lbrack (lb : String) : chunkCodes lb (.punct "[") = [91] := by
  show codes "[" = [91]; decide
@[simp] theorem cc_rbrack (lb : String) : chunkCodes lb (.punct "]") = [93] := by
  show codes "]" = [93]; decide
@[simp] theorem cc_lbrace (lb : String) : chunkCodes lb (.punct "{") = [123] := by
  show codes "{" = [123]; decide
@[simp] theorem cc_rbrace (lb : String) : chunkCodes lb (.punct "}") = [125] := by
  show codes "}" = [125]; decide
@[simp] theorem cc_comma (lb : String) : chunkCodes lb (.punct ",") = [44] := by
  show codes "," = [44]; decide
@[simp] theorem cc_scal (lb : String) (t : String) : chunkCodes lb (.scal t) = codes t := rfl
@[simp] theorem cc_punct (lb : String) (t : String) : chunkCodes lb (.punct t) = codes t := rfl

/-- the first character of a rendered value: not white space, not a closing bracket -/
theorem rT_head (cfg : Cfg) (a : Bool) (hd : DumpsIs cfg.fns a) (lb : String) (t : JT) (ind : Nat)
    (hw : WfT cfg.fns t) :
    ∃ c r, codesOf lb (rT cfg ind t) = c :: r ∧ isWs c = false ∧ c ≠ 93 ∧ c ≠ 125 := by
  cases t with
  | scalar k v =>
    simp only [rT, codesOf_cons, codesOf_nil, List.append_nil, cc_scal]
    cases k with
    | str => exact ⟨34, _, by simp only [scalarText, hd v, JsonString.dumps]; rfl, by decide, by decide, by decide⟩
    | timestamp => exact ⟨34, _, by simp only [scalarText, hd v, JsonString.dumps]; rfl, by decide, by decide, by decide⟩
    | null => exact ⟨110, [117, 108, 108], by simp only [scalarText]; decide, by decide, by decide, by decide⟩
    | bool =>
      simp only [WfT, WfScalar] at hw
      rcases hw with h | h
      · exact ⟨116, [114, 117, 101], by simp only [scalarText, h]; decide, by decide, by decide, by decide⟩
      · exact ⟨102, [97, 108, 115, 101], by simp only [scalarText, h]; decide, by decide, by decide, by decide⟩
    | other =>
      simp only [WfT, WfScalar] at hw
      obtain ⟨hne, hall, _⟩ := hw
      simp only [scalarText]
      cases hcs : codes v with
      | nil => exact absurd hcs hne
      | cons c r =>
        obtain ⟨h0, _, _, _, _, _, _, h7, h8⟩ := isNumChar_cases c (hall c (by simp [hcs]))
        exact ⟨c, r, rfl, h0, h7, h8⟩
  | arr xs => exact ⟨91, _, by simp only [rT, codesOf_append, codesOf_cons, cc_lbrack]; rfl, by decide, by decide, by decide⟩
  | obj kvs => exact ⟨123, _, by simp only [rT, codesOf_append, codesOf_cons, cc_lbrace]; rfl, by decide, by decide, by decide⟩

/-! one-step unfoldings of the parser -/

theorem parseValue_arr_empty (f : Nat) (r r2 : List Nat) (h : skipWs r = 93 :: r2) :
    parseValue (f + 1) (91 :: r) = some (JV.arr .nil, r2) := by
  simp [parseValue, skipWs_cons_nonws 91 r (by decide), h]

theorem parseValue_arr (f : Nat) (r : List Nat) (c2 : Nat) (xs : JVs) (r' : List Nat)
    (h : ∃ r2, skipWs r = c2 :: r2) (hc : c2 ≠ 93) (he : parseElems f r = some (xs, r')) :
    parseValue (f + 1) (91 :: r) = some (JV.arr xs, r') := by
  obtain ⟨r2, h⟩ := h
  simp [parseValue, skipWs_cons_nonws 91 r (by decide), h, hc, he]

theorem parseValue_obj_empty (f : Nat) (r r2 : List Nat) (h : skipWs r = 125 :: r2) :
    parseValue (f + 1) (123 :: r) = some (JV.obj .nil, r2) := by
  simp [parseValue, skipWs_cons_nonws 123 r (by decide), h]

theorem parseValue_obj (f : Nat) (r : List Nat) (c2 : Nat) (kvs : JKVs) (r' : List Nat)
    (h : ∃ r2, skipWs r = c2 :: r2) (hc : c2 ≠ 125) (he : parseMembers f r = some (kvs, r')) :
    parseValue (f + 1) (123 :: r) = some (JV.obj kvs, r') := by
  obtain ⟨r2, h⟩ := h
  simp [parseValue, skipWs_cons_nonws 123 r (by decide), h, hc, he]

theorem parseElems_last (f : Nat) (cs : List Nat) (v : JV) (r r' : List Nat)
    (hv : parseValue f cs = some (v, r)) (hs : skipWs r = 93 :: r') :
    parseElems (f + 1) cs = some (JVs.cons v .nil, r') := by
  simp [parseElems, hv, hs]

theorem parseElems_more (f : Nat) (cs : List Nat) (v : JV) (r r' : List Nat) (xs : JVs) (r'' : List Nat)
    (hv : parseValue f cs = some (v, r)) (hs : skipWs r = 44 :: r')
    (he : parseElems f r' = some (xs, r'')) :
    parseElems (f + 1) cs = some (JVs.cons v xs, r'') := by
  simp [parseElems, hv, hs, he]

theorem parseMembers_last (f : Nat) (cs r k r1 r2 : List Nat) (v : JV) (r3 r4 : List Nat)
    (h0 : skipWs cs = 34 :: r) (hk : parseStrBody (r.length + 1) r = some (k, r1))
    (h1 : skipWs r1 = 58 :: r2) (hv : parseValue f r2 = some (v, r3)) (h3 : skipWs r3 = 125 :: r4) :
    parseMembers (f + 1) cs = some (JKVs.cons k v .nil, r4) := by
  simp [parseMembers, h0, hk, h1, hv, h3]

theorem parseMembers_more (f : Nat) (cs r k r1 r2 : List Nat) (v : JV) (r3 r4 : List Nat)
    (kvs : JKVs) (r5 : List Nat)
    (h0 : skipWs cs = 34 :: r) (hk : parseStrBody (r.length + 1) r = some (k, r1))
    (h1 : skipWs r1 = 58 :: r2) (hv : parseValue f r2 = some (v, r3)) (h3 : skipWs r3 = 44 :: r4)
    (hm : parseMembers f r4 = some (kvs, r5)) :
    parseMembers (f + 1) cs = some (JKVs.cons k v kvs, r5) := by
  simp [parseMembers, h0, hk, h1, hv, h3, hm]

/-- the body of the string token of a key, ready for `parseMembers` -/
theorem key_token (f : TextFns) (a : Bool) (hd : DumpsIs f a) (s : String) (rest : List Nat) :
    ∃ body, codes (f.dumps s) ++ rest = 34 :: body ∧
      parseStrBody (body.length + 1) body = some (codes s, rest) := by
  refine ⟨(codes s).flatMap (if a then escAscii else escUni) ++ 34 :: rest, by simp [hd s, JsonString.dumps], ?_⟩
  have hlen : (codes s).length + 1 ≤
      ((codes s).flatMap (if a then escAscii else escUni) ++ 34 :: rest).length + 1 := by
    have : (codes s).length ≤ ((codes s).flatMap (if a then escAscii else escUni)).length := by
      cases a
      · exact length_flatMap_ge _ esc_nonempty_uni _
      · exact length_flatMap_ge _ esc_nonempty_ascii _
    simp only [List.length_append, List.length_cons]; omega
  cases a
  · exact parse_flatMap _ parse_escUni _ _ rest (codes_scalar s) hlen
  · exact parse_flatMap _ parse_escAscii _ _ rest (codes_scalar s) hlen

theorem sz_pos (t : JT) : 1 ≤ sz t := by cases t <;> simp [sz]

section main
variable (cfg : Cfg) (a : Bool) (lb : String)

def PT (fuel : Nat) : Prop := ∀ (t : JT) (ind : Nat) (rest : List Nat),
  WfT cfg.fns t → sz t ≤ fuel → StopsNum rest →
  parseValue fuel (codesOf lb (rT cfg ind t) ++ rest) = some (toJV cfg.fns t, rest)

def PL (fuel : Nat) : Prop := ∀ (x : JT) (xs : JL) (ind : Nat) (w2 rest : List Nat),
  WfT cfg.fns x → WfL cfg.fns xs → AllWs w2 → 1 + sz x + szL xs ≤ fuel →
  parseElems fuel (codesOf lb (rT cfg ind x) ++ (codesOf lb (rL cfg ind false xs) ++ (w2 ++ 93 :: rest)))
    = some (JVs.cons (toJV cfg.fns x) (toJVs cfg.fns xs), rest)

def PK (fuel : Nat) : Prop := ∀ (s : String) (v : JT) (kvs : JKL) (ind : Nat) (w2 rest : List Nat),
  WfT cfg.fns v → WfK cfg.fns kvs → AllWs w2 → 1 + sz v + szK kvs ≤ fuel →
  parseMembers fuel (codesOf lb (rT cfg ind (JT.scalar SK.str s)) ++ (codes cfg.kvsep ++
      (codesOf lb (rT cfg ind v) ++ (codesOf lb (rK cfg ind false kvs) ++ (w2 ++ 125 :: rest)))))
    = some (JKVs.cons (codes s) (toJV cfg.fns v) (toJKVs cfg.fns kvs), rest)

theorem parse_all (hd : DumpsIs cfg.fns a) (hk : WfCfg cfg) (hlb : AllWs (codes lb)) :
    ∀ fuel, PT cfg lb fuel ∧ PL cfg lb fuel ∧ PK cfg lb fuel
  | 0 => ⟨fun t _ _ _ hs _ => by have := sz_pos t; omega,
          fun _ _ _ _ _ _ _ _ hs => by omega, fun _ _ _ _ _ _ _ _ _ hs => by omega⟩
  | f + 1 => by
    obtain ⟨ihT, ihL, ihK⟩ := parse_all hd hk hlb f
    refine ⟨?_, ?_, ?_⟩
    · intro t ind rest hw hs hr
      cases t with
      | scalar k v =>
        simp only [rT, codesOf_cons, codesOf_nil, List.append_nil, cc_scal]
        exact parse_scalar cfg.fns a hd k v rest f hw hr
      | arr xs =>
        have hE1 := allWs_endl cfg lb hlb (ind + cfg.best)
        have hE0 := allWs_endl cfg lb hlb ind
        simp only [rT, toJV, codesOf_append, codesOf_cons, codesOf_nil, cc_lbrack, cc_rbrack,
          List.append_assoc, List.cons_append, List.nil_append, List.append_nil]
        cases xs with
        | nil =>
          simp only [toJVs]
          apply parseValue_arr_empty
          simp only [rL, codesOf_nil, List.nil_append]
          rw [skipWs_append_ws _ _ hE1, skipWs_append_ws _ _ hE0]
          exact skipWs_cons_nonws 93 rest (by decide)
        | cons x xs' =>
          simp only [WfT, WfL] at hw
          simp only [sz, szL] at hs
          obtain ⟨c, r, hx, hc0, hc93, _⟩ := rT_head cfg a hd lb x (ind + cfg.best) hw.1
          simp only [rL, ↓reduceIte, codesOf_append, List.nil_append, List.append_assoc, toJVs]
          refine parseValue_arr f _ c _ rest ?_ hc93 ?_
          · rw [skipWs_append_ws _ _ hE1, hx]; exact ⟨_, skipWs_cons_nonws c _ hc0⟩
          · rw [parseElems_ws _ _ _ hE1]
            exact ihL x xs' (ind + cfg.best) _ rest hw.1 hw.2 hE0 (by omega)
      | obj kvs =>
        have hE1 := allWs_endl cfg lb hlb (ind + cfg.best)
        have hE0 := allWs_endl cfg lb hlb ind
        simp only [rT, toJV, codesOf_append, codesOf_cons, codesOf_nil, cc_lbrace, cc_rbrace,
          List.append_assoc, List.cons_append, List.nil_append, List.append_nil]
        cases kvs with
        | nil =>
          simp only [toJKVs]
          apply parseValue_obj_empty
          simp only [rK, codesOf_nil, List.nil_append]
          rw [skipWs_append_ws _ _ hE1, skipWs_append_ws _ _ hE0]
          exact skipWs_cons_nonws 125 rest (by decide)
        | cons k v kvs' =>
          simp only [WfT, WfK] at hw
          simp only [sz, szK] at hs
          obtain ⟨⟨s, rfl⟩, hv, hkvs⟩ := hw
          obtain ⟨c, r, hx, hc0, _, hc125⟩ :=
            rT_head cfg a hd lb (JT.scalar SK.str s) (ind + cfg.best) (by simp [WfT, WfScalar])
          simp only [rK, ↓reduceIte, codesOf_append, codesOf_cons, codesOf_nil, cc_punct,
            List.nil_append, List.append_assoc, List.append_nil, toJKVs, keyOf]
          refine parseValue_obj f _ c _ rest ?_ hc125 ?_
          · rw [skipWs_append_ws _ _ hE1, hx]; exact ⟨_, skipWs_cons_nonws c _ hc0⟩
          · rw [parseMembers_ws _ _ _ hE1]
            exact ihK s v kvs' (ind + cfg.best) _ rest hv hkvs hE0 (by omega)
    · intro x xs ind w2 rest hx hxs hw2 hs
      have hstop : StopsNum (w2 ++ 93 :: rest) :=
        StopsNum.ws_append _ _ hw2 (StopsNum.cons 93 _ (by decide))
      cases xs with
      | nil =>
        simp only [rL, codesOf_nil, List.nil_append, toJVs]
        simp only [szL] at hs
        exact parseElems_last f _ _ (w2 ++ 93 :: rest) rest
          (ihT x ind _ hx (by omega) hstop)
          (by rw [skipWs_append_ws _ _ hw2]; exact skipWs_cons_nonws 93 rest (by decide))
      | cons x' xs' =>
        have hE := allWs_endl cfg lb hlb ind
        simp only [WfL] at hxs
        simp only [szL] at hs
        simp only [rL, Bool.false_eq_true, ↓reduceIte, codesOf_append, codesOf_cons, cc_comma,
          List.append_assoc, List.cons_append, List.nil_append, toJVs]
        refine parseElems_more f _ _ _ _ _ rest
          (ihT x ind _ hx (by omega) (StopsNum.cons 44 _ (by decide)))
          (skipWs_cons_nonws 44 _ (by decide)) ?_
        rw [parseElems_ws _ _ _ hE]
        exact ihL x' xs' ind w2 rest hxs.1 hxs.2 hw2 (by omega)
    · intro s v kvs ind w2 rest hv hkvs hw2 hs
      obtain ⟨w3, hk58, hw3⟩ := kvsep_codes cfg hk
      simp only [rT, scalarText, codesOf_cons, codesOf_nil, List.append_nil, cc_scal]
      obtain ⟨body, hb, hp⟩ := key_token cfg.fns a hd s
        (codes cfg.kvsep ++ (codesOf lb (rT cfg ind v) ++ (codesOf lb (rK cfg ind false kvs) ++ (w2 ++ 125 :: rest))))
      have h0 : skipWs (codes (cfg.fns.dumps s) ++ (codes cfg.kvsep ++ (codesOf lb (rT cfg ind v) ++
          (codesOf lb (rK cfg ind false kvs) ++ (w2 ++ 125 :: rest))))) = 34 :: body := by
        rw [hb]; exact skipWs_cons_nonws 34 _ (by decide)
      have h1 : skipWs (codes cfg.kvsep ++ (codesOf lb (rT cfg ind v) ++
          (codesOf lb (rK cfg ind false kvs) ++ (w2 ++ 125 :: rest))))
          = 58 :: (w3 ++ (codesOf lb (rT cfg ind v) ++ (codesOf lb (rK cfg ind false kvs) ++ (w2 ++ 125 :: rest)))) := by
        rw [hk58]; exact skipWs_cons_nonws 58 _ (by decide)
      cases kvs with
      | nil =>
        simp only [rK, codesOf_nil, List.nil_append, toJKVs] at h0 h1 hp ⊢
        simp only [szK] at hs
        have hvv := ihT v ind (w2 ++ 125 :: rest) hv (by omega)
          (StopsNum.ws_append _ _ hw2 (StopsNum.cons 125 _ (by decide)))
        rw [← parseValue_ws f w3 _ hw3] at hvv
        exact parseMembers_last f _ body _ _ _ _ _ rest h0 hp h1 hvv
          (by rw [skipWs_append_ws _ _ hw2]; exact skipWs_cons_nonws 125 rest (by decide))
      | cons k' v' kvs' =>
        have hE := allWs_endl cfg lb hlb ind
        simp only [WfK] at hkvs
        obtain ⟨⟨s', rfl⟩, hv', hkvs'⟩ := hkvs
        simp only [szK] at hs
        simp only [rK, Bool.false_eq_true, ↓reduceIte, codesOf_append, codesOf_cons, codesOf_nil, cc_comma,
          cc_punct, List.append_assoc, List.cons_append, List.nil_append, List.append_nil, toJKVs, keyOf]
          at h0 h1 hp ⊢
        have hvv := ihT v ind _ hv (by omega) (StopsNum.cons 44
          (codesOf lb (endl cfg ind) ++ (codesOf lb (rT cfg ind (JT.scalar SK.str s')) ++ (codes cfg.kvsep ++
            (codesOf lb (rT cfg ind v') ++ (codesOf lb (rK cfg ind false kvs') ++ (w2 ++ 125 :: rest))))))
          (by decide))
        rw [← parseValue_ws f w3 _ hw3] at hvv
        refine parseMembers_more f _ body _ _ _ _ _ _ _ rest h0 hp h1 hvv
          (skipWs_cons_nonws 44 _ (by decide)) ?_
        rw [parseMembers_ws _ _ _ hE]
        exact ihK s' v' kvs' ind w2 rest hv' hkvs' hw2 (by omega)

end main

/-! ### the text is at least as long as the tree is big (so `parseJson`'s fuel suffices) -/

theorem len_scalar (f : TextFns) (a : Bool) (hd : DumpsIs f a) (k : SK) (v : String) (hw : WfScalar f k v) :
    1 ≤ (codes (scalarText f k v)).length := by
  cases k with
  | str => simp only [scalarText, hd v, JsonString.dumps]; simp
  | timestamp => simp only [scalarText, hd v, JsonString.dumps]; simp
  | null => simp only [scalarText]; decide
  | bool =>
    simp only [WfScalar] at hw
    rcases hw with h | h <;> simp only [scalarText, h] <;> decide
  | other =>
    obtain ⟨hne, _, _⟩ := hw
    simp only [scalarText]
    cases hcs : codes v with
    | nil => exact absurd hcs hne
    | cons c r => simp

mutual
theorem lenT (cfg : Cfg) (a : Bool) (hd : DumpsIs cfg.fns a) (lb : String) :
    ∀ (t : JT) (ind : Nat), WfT cfg.fns t → sz t ≤ (codesOf lb (rT cfg ind t)).length
  | .scalar k v, ind, hw => by
    simp only [sz, rT, codesOf_cons, codesOf_nil, List.append_nil, cc_scal]
    exact len_scalar cfg.fns a hd k v hw
  | .arr xs, ind, hw => by
    have := lenL cfg a hd lb xs (ind + cfg.best) true hw
    simp only [sz, rT, codesOf_append, codesOf_cons, codesOf_nil, cc_lbrack, cc_rbrack,
      List.length_append, List.length_cons, List.length_nil]
    simp only [if_true] at this
    omega
  | .obj kvs, ind, hw => by
    have := lenK cfg a hd lb kvs (ind + cfg.best) true hw
    simp only [sz, rT, codesOf_append, codesOf_cons, codesOf_nil, cc_lbrace, cc_rbrace,
      List.length_append, List.length_cons, List.length_nil]
    omega
theorem lenL (cfg : Cfg) (a : Bool) (hd : DumpsIs cfg.fns a) (lb : String) :
    ∀ (xs : JL) (ind : Nat) (first : Bool), WfL cfg.fns xs →
      szL xs ≤ (codesOf lb (rL cfg ind first xs)).length + (if first = true then 1 else 0)
  | .nil, _, _, _ => by simp [szL]
  | .cons x xs, ind, first, hw => by
    have h1 := lenT cfg a hd lb x ind hw.1
    have h2 := lenL cfg a hd lb xs ind false hw.2
    simp only [Bool.false_eq_true, if_false, Nat.add_zero] at h2
    cases first
    · simp only [szL, rL, Bool.false_eq_true, ↓reduceIte, codesOf_append, codesOf_cons, cc_comma,
        List.length_append, List.length_cons, List.length_nil]
      omega
    · simp only [szL, rL, ↓reduceIte, codesOf_append, codesOf_nil, List.length_append, List.length_nil]
      omega
theorem lenK (cfg : Cfg) (a : Bool) (hd : DumpsIs cfg.fns a) (lb : String) :
    ∀ (kvs : JKL) (ind : Nat) (first : Bool), WfK cfg.fns kvs →
      szK kvs ≤ (codesOf lb (rK cfg ind first kvs)).length
  | .nil, _, _, _ => by simp [szK]
  | .cons k v rest, ind, first, hw => by
    obtain ⟨⟨s, rfl⟩, hv, hr⟩ := hw
    have h0 := lenT cfg a hd lb (JT.scalar SK.str s) ind (by simp [WfT, WfScalar])
    have h1 := lenT cfg a hd lb v ind hv
    have h2 := lenK cfg a hd lb rest ind false hr
    simp only [sz] at h0
    simp only [szK, rK, codesOf_append, List.length_append]
    omega
end

end YatimlModel.JsonParse
