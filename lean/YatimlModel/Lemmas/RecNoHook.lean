import YatimlModel.Model.Recognize
/-!
If no custom recogniser of the class model can raise anything but
RecognitionError, recognition never ends in `Fatal.hook` (the one outcome that
makes a load raise an exception of another type).
-/
namespace YatimlModel
open NodeOps

/-- a recogniser step that raises nothing but RecognitionError -/
def TameRecOp : RecOp → Prop
  | .raiseOther => False
  | .requireScalar typs => ∀ t ∈ typs, ∀ n, (isScalar n t).isOk = true   -- no invalid type argument
  | _ => True

def HooksTame (env : Env) : Prop :=
  ∀ d ∈ env.registered, ∀ prog, d.recognize = some prog → ∀ op ∈ prog, TameRecOp op

def NoHook (r : RecRes) : Prop := r ≠ .error .hook

theorem recDone_noHook (T : Ty) (amb : Option RecOut) : NoHook (recDone T amb) := by
  unfold recDone
  split <;> simp [NoHook, recOk]

theorem recListItems_noHook (rec : Node → Ty → RecRes) (T itemTy : Ty)
    (hrec : ∀ x, NoHook (rec x itemTy)) : ∀ items amb, NoHook (recListItems rec T itemTy amb items) := by
  intro items
  induction items with
  | nil => intro amb; simp only [recListItems]; exact recDone_noHook T amb
  | cons x xs ih =>
    intro amb
    unfold recListItems
    have := hrec x
    split
    · rename_i e he
      intro h; cases h; exact this he
    · split
      · simp [NoHook]
      · exact ih _

theorem recDictPairs_noHook (rec : Node → Ty → RecRes) (T K V : Ty)
    (hk : ∀ x, NoHook (rec x K)) (hv : ∀ x, NoHook (rec x V)) :
    ∀ ps amb, NoHook (recDictPairs rec T K V amb ps) := by
  intro ps
  induction ps with
  | nil => intro amb; simp only [recDictPairs]; exact recDone_noHook T amb
  | cons p ps ih =>
    intro amb
    obtain ⟨k, v⟩ := p
    unfold recDictPairs
    have h1 := hk k
    have h2 := hv v
    split
    · rename_i e he
      intro h; cases h; exact h1 he
    · split
      · simp [NoHook]
      · split
        · rename_i e he
          intro h; cases h; exact h2 he
        · split
          · simp [NoHook]
          · exact ih _

theorem recUnionMembers_noHook (rec : Node → Ty → RecRes) (n : Node)
    (hrec : ∀ m, NoHook (rec n m)) : ∀ ms acc, recUnionMembers rec n ms acc ≠ .error .hook := by
  intro ms
  induction ms with
  | nil => intro acc; simp [recUnionMembers]
  | cons m ms ih =>
    intro acc
    unfold recUnionMembers
    have := hrec m
    split
    · rename_i e he
      intro h; cases h; exact this he
    · exact ih _

theorem recUnion_noHook (rec : Node → Ty → RecRes) (n : Node) (ms : List Ty)
    (hrec : ∀ m, NoHook (rec n m)) : NoHook (recUnion rec n ms) := by
  unfold recUnion
  have := recUnionMembers_noHook rec n hrec ms ⟨[], []⟩
  split
  · rename_i e he
    intro h; cases h; exact this he
  · dsimp only
    split <;> simp [NoHook]

theorem reqAttribute_noHook (rec : Node → Ty → RecRes) (n : Node) (a : String) (ty : Option Ty)
    (hrec : ∀ x U, NoHook (rec x U)) : reqAttribute rec n a ty ≠ .error .hook := by
  unfold reqAttribute
  repeat' split
  all_goals first
    | (intro h; cases h; done)
    | (rename_i he; intro h; cases h; exact hrec _ _ he)

theorem scalarEquals_noHook (ext : Ext) (v : Node) (w : PyScalar) : scalarEquals ext v w ≠ .error .hook := by
  unfold scalarEquals
  repeat' split
  all_goals (intro h; cases h)

theorem reqAttrValueLoop_noHook (ext : Ext) (a : String) (w : PyScalar) (neg : Bool) :
    ∀ ps found, reqAttrValueLoop ext a w neg ps found ≠ .error .hook := by
  intro ps
  induction ps with
  | nil => intro found; simp [reqAttrValueLoop]
  | cons p ps ih =>
    intro found
    obtain ⟨k, v⟩ := p
    unfold reqAttrValueLoop
    have hs := scalarEquals_noHook ext v w
    repeat' split
    all_goals first
      | exact ih _
      | (intro h; cases h; done)
      | (rename_i he; intro h; cases h; exact hs he)

theorem reqScalar_noHook (n : Node) (typs : List TypArg)
    (h : ∀ t ∈ typs, ∀ n, (isScalar n t).isOk = true) : reqScalar n typs ≠ .error .hook := by
  unfold reqScalar
  split
  · simp
  · rename_i hne
    have hfold : ∀ (l : List TypArg) (init : Except Fatal Bool), (∀ t ∈ l, ∀ n, (isScalar n t).isOk = true) →
        init ≠ .error .hook →
        l.foldl (fun (acc : Except Fatal Bool) t =>
          match acc with
          | .error e => .error e
          | .ok true => .ok true
          | .ok false =>
            match isScalar n t with
            | .ok b => .ok b
            | .error _ => .error .hook) init ≠ .error .hook := by
      intro l
      induction l with
      | nil => intro init _ hi; simpa using hi
      | cons t ts ih =>
        intro init hl hi
        simp only [List.foldl_cons]
        apply ih _ (fun t' ht' => hl t' (List.mem_cons_of_mem _ ht'))
        have ht := hl t List.mem_cons_self n
        cases init with
        | error e => exact hi
        | ok b =>
          cases b
          · cases hs : isScalar n t with
            | ok b' => simp
            | error e' => rw [hs] at ht; cases ht
          · simp
    have := hfold typs (.ok false) h (by simp)
    dsimp only
    split
    · rename_i e he
      intro hh; cases hh; exact this he
    · simp
    · simp

theorem runRecOp_noHook (ext : Ext) (rec : Node → Ty → RecRes) (n : Node) (op : RecOp)
    (hop : TameRecOp op) (hrec : ∀ x U, NoHook (rec x U)) : runRecOp ext rec n op ≠ .error .hook := by
  cases op with
  | requireScalar typs => exact reqScalar_noHook n typs hop
  | requireMapping => simp [runRecOp]
  | requireSequence => simp [runRecOp]
  | requireAttribute a ty => exact reqAttribute_noHook rec n a ty hrec
  | requireAttributeValue a v =>
    simp only [runRecOp, reqAttrValue]
    split
    · exact reqAttrValueLoop_noHook ext a v false _ _
    · simp
  | requireAttributeValueNot a v =>
    simp only [runRecOp, reqAttrValue]
    split
    · exact reqAttrValueLoop_noHook ext a v true _ _
    · simp
  | raiseRecognition => simp [runRecOp]
  | raiseOther => exact hop.elim
  | «opaque» f => simp [runRecOp]

theorem runRecProg_noHook (ext : Ext) (rec : Node → Ty → RecRes) (n : Node)
    (hrec : ∀ x U, NoHook (rec x U)) :
    ∀ prog, (∀ op ∈ prog, TameRecOp op) → runRecProg ext rec n prog ≠ .error .hook := by
  intro prog
  induction prog with
  | nil => intro _; simp [runRecProg]
  | cons op ops ih =>
    intro h
    unfold runRecProg
    have h1 := runRecOp_noHook ext rec n op (h op List.mem_cons_self) hrec
    split
    · rename_i e he
      intro hh; cases hh; exact h1 he
    · simp
    · exact ih (fun o ho => h o (List.mem_cons_of_mem _ ho))

theorem tryAttrName_noHook (rec : Node → Ty → RecRes) (ps : List (Node × Node)) (ty : Ty) (name : String)
    (hrec : ∀ x U, NoHook (rec x U)) (r : Except Fatal (Option (List Leaf)))
    (h : tryAttrName rec ps ty name = some r) : r ≠ .error .hook := by
  unfold tryAttrName at h
  split at h
  · simp only [Option.some.injEq] at h
    subst h
    repeat' split
    all_goals first
      | (intro h; cases h; done)
      | (rename_i he; intro h; cases h; exact hrec _ _ he)
  · cases h

theorem recAttr_noHook (rec : Node → Ty → RecRes) (n : Node) (ps : List (Node × Node)) (p : Param)
    (hrec : ∀ x U, NoHook (rec x U)) : recAttr rec n ps p ≠ .error .hook := by
  unfold recAttr
  split
  · rename_i r hr
    exact tryAttrName_noHook rec ps p.ty p.name hrec r hr
  · split
    · rename_i r hr
      exact tryAttrName_noHook rec ps p.ty _ hrec r hr
    · split <;> simp

theorem recAttrs_noHook (rec : Node → Ty → RecRes) (n : Node) (ps : List (Node × Node))
    (hrec : ∀ x U, NoHook (rec x U)) : ∀ params, recAttrs rec n ps params ≠ .error .hook := by
  intro params
  induction params with
  | nil => simp [recAttrs]
  | cons p rest ih =>
    unfold recAttrs
    have h1 := recAttr_noHook rec n ps p hrec
    split
    · rename_i e he
      intro hh; cases hh; exact h1 he
    · simp
    · exact ih

theorem recUserClass_noHook (env : Env) (rec : Node → Ty → RecRes) (n : Node) (d : ClassDef)
    (hd : ∀ prog, d.recognize = some prog → ∀ op ∈ prog, TameRecOp op)
    (hrec : ∀ x U, NoHook (rec x U)) : NoHook (recUserClass env rec n d) := by
  unfold recUserClass
  split
  · rename_i prog hp
    have := runRecProg_noHook env.ext rec n hrec prog (hd prog hp)
    split
    · rename_i e he
      intro hh; cases hh; exact this he
    · simp [NoHook, recOk]
    · simp [NoHook, recFail]
  · repeat' split
    all_goals first
      | (simp [NoHook, recOk, recFail]; done)
      | (rename_i he; intro hh; injection hh with hh
         have := Fatal.atMapping_hook _ _ hh; subst this; exact recAttrs_noHook rec _ _ hrec _ he)

theorem recSubclasses_noHook (recC : ClassDef → RecRes) (hC : ∀ d, NoHook (recC d)) :
    ∀ ds acc, recSubclasses recC ds acc ≠ .error .hook := by
  intro ds
  induction ds with
  | nil => intro acc; simp [recSubclasses]
  | cons d ds ih =>
    intro acc
    unfold recSubclasses
    have := hC d
    split
    · rename_i e he
      intro h; cases h; exact this he
    · exact ih _

theorem finishClasses_noHook (env : Env) (n : Node) (top : Bool) (ts : List Ty) (c : List (List Leaf)) :
    NoHook (finishClasses env n top ts c) := by
  unfold finishClasses
  repeat' split
  all_goals simp [NoHook, recOk, recFail]

theorem find_mem (env : Env) (c : String) (d : ClassDef) (h : env.find c = some d) : d ∈ env.registered := by
  unfold Env.find at h
  exact List.mem_of_find?_eq_some h

/-- **No recogniser escape.**  With tame custom recognisers, recognition never ends in `Fatal.hook`. -/
theorem recognizeReq_noHook (env : Env) (ht : HooksTame env) :
    ∀ fuel n q, NoHook (recognizeReq env fuel n q) := by
  intro fuel
  induction fuel with
  | zero => intro n q; simp [recognizeReq, NoHook]
  | succ fuel ih =>
    intro n q
    have ihT : ∀ x U, NoHook (recognizeReq env fuel x (.ty U)) := fun x U => ih x (.ty U)
    cases q with
    | ty T =>
      cases T with
      | union ms => simp only [recognizeReq]; exact recUnion_noHook _ n _ (fun m => ihT n m)
      | seq k item =>
        simp only [recognizeReq, recList]
        split
        · exact recListItems_noHook _ _ _ (fun x => ihT x item) _ _
        · simp [NoHook, recFail]
      | map k a b =>
        simp only [recognizeReq, recDict]
        split
        · simp [NoHook]
        · split
          · exact recDictPairs_noHook _ _ _ _ (fun x => ihT x a) (fun x => ihT x b) _ _
          · simp [NoHook, recFail]
      | cls c =>
        simp only [recognizeReq]
        split
        · exact ih n _
        · simp [NoHook]
      | any => simp [recognizeReq, NoHook, recOk]
      | str | int | float | bool | boolFix | null | date | path =>
        simp only [recognizeReq, recScalar]
        repeat' split
        all_goals simp [NoHook, recOk, recFail]
    | classes c top =>
      simp only [recognizeReq]
      split
      · simp [NoHook]
      · rename_i d hfind
        have hsub := recSubclasses_noHook (fun s => recognizeReq env fuel n (.classes s.name false))
          (fun s => ih n _) (env.directSubclasses c) ⟨[], []⟩
        split
        · rename_i e he
          intro hh; cases hh; exact hsub he
        · split
          · split
            · exact finishClasses_noHook _ _ _ _ _
            · have huc := recUserClass_noHook env _ n d (ht d (find_mem env c d hfind)) ihT
              split
              · rename_i e he
                intro hh; cases hh; exact huc he
              · exact finishClasses_noHook _ _ _ _ _
          · exact finishClasses_noHook _ _ _ _ _

theorem recognize_noHook (env : Env) (ht : HooksTame env) (fuel : Nat) (n : Node) (T : Ty) :
    recognize env fuel n T ≠ .error .hook :=
  recognizeReq_noHook env ht fuel n (.ty T)

end YatimlModel
