import YatimlModel.Lemmas.Conforms
import YatimlModel.Lemmas.CallsTyped
/-!
Which user constructors a load can run: only those of classes *reachable* from the declared type —
the classes the type names, registered classes derived from them, and, recursively, the classes
reachable from the parameter types of those classes.  Nothing a document contains (tags, extra keys,
nesting below `Any` or `_yatiml_extra`) can make any other constructor run.
-/
namespace YatimlModel
open NodeOps

inductive Reach (env : Env) : Ty → String → Prop
  | cls {c d : String} : Descends env c d → env.isRegistered d = true → Reach env (.cls c) d
  | attr {c d : String} {dd : ClassDef} {p : Param} {e : String} :
      Descends env c d → env.find d = some dd → p ∈ dd.params → Reach env p.ty e → Reach env (.cls c) e
  | item {k : SeqKind} {i : Ty} {e : String} : Reach env i e → Reach env (.seq k i) e
  | key {k : MapKind} {a b : Ty} {e : String} : Reach env a e → Reach env (.map k a b) e
  | val {k : MapKind} {a b : Ty} {e : String} : Reach env b e → Reach env (.map k a b) e
  | mem {ms : Tys} {m : Ty} {e : String} : m ∈ ms.toList → Reach env m e → Reach env (.union ms) e

theorem descends_trans (env : Env) {a b c : String} (h1 : Descends env a b) (h2 : Descends env b c) :
    Descends env a c := by
  induction h1 with
  | refl _ => exact h2
  | step d hd _ ih => exact Descends.step d hd (ih h2)

theorem admits_reach (env : Env) {T R : Ty} (h : Admits env T R) : ∀ e, Reach env R e → Reach env T e := by
  induction h with
  | self T _ _ => intro e he; exact he
  | unionMem hm _ ih => intro e he; exact Reach.mem hm (ih e he)
  | cls hd _ =>
    intro e he
    cases he with
    | cls hd' hreg => exact Reach.cls (descends_trans env hd hd') hreg
    | attr hd' hf hp hr => exact Reach.attr (descends_trans env hd hd') hf hp hr
  | seqItem _ ih =>
    intro e he
    cases he with
    | item h => exact Reach.item (ih e h)
  | mapKey _ ih =>
    intro e he
    cases he with
    | key h => exact Reach.key (ih e h)
    | val h => exact Reach.val h
  | mapVal _ ih =>
    intro e he
    cases he with
    | key h => exact Reach.key h
    | val h => exact Reach.val (ih e h)

/-- the calls recorded in a construction result -/
def consCalls (r : ConsRes) : List Call :=
  match r with
  | .ok o => o.calls
  | .error (_, cs) => cs

theorem consItems_calls (P : Call → Prop) (cons : Node → ConsRes) :
    ∀ (xs : List Node) (c0 : List Call), (∀ x ∈ xs, ∀ c ∈ consCalls (cons x), P c) → (∀ c ∈ c0, P c) →
      ∀ c ∈ outCalls (consItems cons xs c0), P c := by
  intro xs
  induction xs with
  | nil => intro c0 _ h0; simpa [consItems, outCalls] using h0
  | cons x xs ih =>
    intro c0 hx h0
    have hxx := hx x List.mem_cons_self
    unfold consItems
    cases hc : cons x with
    | error err =>
      obtain ⟨e, cs⟩ := err
      rw [hc] at hxx
      simp only [outCalls]
      intro c hcm
      rcases List.mem_append.mp hcm with h | h
      · exact h0 c h
      · exact hxx c h
    | ok o =>
      rw [hc] at hxx
      have := ih (c0 ++ o.calls) (fun y hy => hx y (List.mem_cons_of_mem _ hy)) (by
        intro c hcm
        rcases List.mem_append.mp hcm with h | h
        · exact h0 c h
        · exact hxx c h)
      dsimp only
      cases hr : consItems cons xs (c0 ++ o.calls) with
      | error err =>
        rw [hr] at this
        obtain ⟨e, cs⟩ := err
        simpa [outCalls] using this
      | ok res =>
        rw [hr] at this
        obtain ⟨ys, cs⟩ := res
        simpa [outCalls] using this

theorem consPairs_calls (P : Call → Prop) (cons : Node → ConsRes) :
    ∀ (ps : List (Node × Node)) (acc : List (PyVal × PyVal)) (c0 : List Call),
      (∀ p ∈ ps, (∀ c ∈ consCalls (cons p.1), P c) ∧ (∀ c ∈ consCalls (cons p.2), P c)) → (∀ c ∈ c0, P c) →
      ∀ c ∈ outCalls (consPairs cons ps acc c0), P c := by
  intro ps
  induction ps with
  | nil => intro acc c0 _ h0; simpa [consPairs, outCalls] using h0
  | cons p ps ih =>
    intro acc c0 hp h0
    obtain ⟨k, v⟩ := p
    have hkv := hp (k, v) List.mem_cons_self
    have app : ∀ (a b : List Call), (∀ c ∈ a, P c) → (∀ c ∈ b, P c) → ∀ c ∈ a ++ b, P c := by
      intro a b ha hb c hc
      rcases List.mem_append.mp hc with h | h
      · exact ha c h
      · exact hb c h
    unfold consPairs
    cases hck : cons k with
    | error err =>
      obtain ⟨e, cs⟩ := err
      have h1 := hkv.1
      rw [hck] at h1
      simp only [outCalls]
      exact app _ _ h0 h1
    | ok ko =>
      have h1 := hkv.1
      rw [hck] at h1
      dsimp only
      split
      · simp only [outCalls]
        exact app _ _ h0 h1
      · cases hcv : cons v with
        | error err =>
          obtain ⟨e, cs⟩ := err
          have h2 := hkv.2
          rw [hcv] at h2
          simp only [outCalls]
          exact app _ _ (app _ _ h0 h1) h2
        | ok vo =>
          have h2 := hkv.2
          rw [hcv] at h2
          exact ih _ _ (fun q hq => hp q (List.mem_cons_of_mem _ hq)) (app _ _ (app _ _ h0 h1) h2)

theorem quiet_calls (r : ConsRes) (h : QuietPlain r) : consCalls r = [] := by
  cases r with
  | ok o => exact h.1
  | error e => obtain ⟨e, cs⟩ := e; exact h

/-- the names `__init__` accepts (apart from `_yatiml_extra`) are its parameters -/
def ArgsAreParams (env : Env) : Prop :=
  ∀ c d, env.find c = some d → ∀ k, d.argNames.contains k = true → k ≠ "_yatiml_extra" →
    ∃ p ∈ d.params, p.name = k

theorem strKey_quiet (env : Env) (tbl : List Entry) (fuel : Nat) (k : Node)
    (hk : k.isScalarNode = true ∧ k.tag = tStr) : consCalls (construct env tbl fuel k) = [] := by
  apply quiet_calls
  apply construct_quiet
  cases k with
  | scalar t v m =>
    simp only [Node.tag] at hk
    simp only [AllCore]
    rw [hk.2]; decide
  | seq _ _ _ => simp [Node.isScalarNode] at hk
  | map _ _ _ => simp [Node.isScalarNode] at hk

/-- **Only reachable constructors run.** -/
theorem construct_calls_reach (env : Env) (tbl : List Entry) (htbl : TableCore tbl) (hwf : EnvWF env)
    (hargs : ArgsAreParams env)
    (hparamsOk : ∀ c d, env.find c = some d → ∀ p ∈ d.params, DictKeysOk p.ty) :
    ∀ (fuel : Nat) (n : Node) (T : Ty), Tagged env T n → DictKeysOk T →
      ∀ c ∈ consCalls (construct env tbl fuel n), Reach env T c.cls := by
  intro fuel
  induction fuel with
  | zero => intro n T _ _ c hc; simp [construct, consCalls] at hc
  | succ fuel ih =>
    intro n T htag hT c hc
    cases htag with
    | mk hadm hr =>
      apply admits_reach env hadm
      have hR := admits_dictKeysOk env hadm hT
      cases hr with
      | any hcore =>
        rw [quiet_calls _ (construct_quiet env tbl (fuel + 1) n hcore)] at hc
        cases hc
      | scalar ht htg =>
        rename_i t
        obtain ⟨hcore, hns, hnm⟩ := scalarTag_core _ t ht
        exfalso
        revert hc
        unfold construct
        dsimp only
        rw [htg, byTag_core env t hcore]
        dsimp only
        rw [core_ne_path t hcore]
        simp only [Bool.false_eq_true, if_false]
        cases n with
        | scalar t' v m =>
          dsimp only
          split <;> simp [consCalls]
        | seq t' xs m =>
          simp only [Node.tag] at htg
          subst htg
          dsimp only
          rw [hns]
          simp [consCalls]
        | map t' ps m =>
          simp only [Node.tag] at htg
          subst htg
          dsimp only
          rw [hnm]
          simp [consCalls]
      | path htg =>
        exfalso
        revert hc
        unfold construct
        dsimp only
        have hb : env.byTag "!Path" = none := by
          have := byTag_bang' env "Path"
          rw [hwf.noPath] at this
          exact this
        rw [htg, hb]
        simp only [beq_self_eq_true, if_true]
        split <;> simp [consCalls]
      | seq hitems =>
        rename_i k item xs m
        simp only [DictKeysOk] at hR
        revert hc
        unfold construct
        dsimp only
        have hb : env.byTag (Node.seq tSeq xs m).tag = none := byTag_core env tSeq (by decide)
        have hp : ((Node.seq tSeq xs m).tag == "!Path") = false := core_ne_path tSeq (by decide)
        rw [hb]
        dsimp only
        simp only [hp, Bool.false_eq_true, if_false, beq_self_eq_true, if_true]
        have key := consItems_calls (fun c => Reach env (.seq k item) c.cls) (construct env tbl fuel) xs.toList []
          (fun x hx c hc => Reach.item (ih x item (hitems x hx) hR c hc)) (by intro c hc; cases hc)
        intro hc
        cases hr : consItems (construct env tbl fuel) xs.toList [] with
        | error err =>
          obtain ⟨e, cs⟩ := err
          rw [hr] at hc key
          exact key c (by simpa [consCalls, outCalls] using hc)
        | ok res =>
          obtain ⟨ys, cs⟩ := res
          rw [hr] at hc key
          exact key c (by simpa [consCalls, outCalls] using hc)
      | map hkeys hvals =>
        rename_i k K V ps m
        simp only [DictKeysOk] at hR
        have hKd : DictKeysOk K := by
          rcases hR.1 with rfl | ⟨c', rfl⟩ <;> simp [DictKeysOk]
        revert hc
        unfold construct
        dsimp only
        have hb : env.byTag (Node.map tMap ps m).tag = none := byTag_core env tMap (by decide)
        have hp : ((Node.map tMap ps m).tag == "!Path") = false := core_ne_path tMap (by decide)
        rw [hb]
        dsimp only
        simp only [hp, Bool.false_eq_true, if_false, beq_self_eq_true, if_true]
        rw [flattenPairs_id fuel ps.toList (fun p hp => key_tag_plain env K hR.1 p.1 (hkeys p hp))]
        dsimp only
        have key := consPairs_calls (fun c => Reach env (.map k K V) c.cls) (construct env tbl fuel) ps.toList [] []
          (fun p hp => ⟨fun c hc => Reach.key (ih p.1 K (hkeys p hp) hKd c hc),
                        fun c hc => Reach.val (ih p.2 V (hvals p hp) hR.2 c hc)⟩) (by intro c hc; cases hc)
        intro hc
        cases hr : consPairs (construct env tbl fuel) ps.toList [] [] with
        | error err =>
          obtain ⟨e, cs⟩ := err
          rw [hr] at hc key
          exact key c (by simpa [consCalls, outCalls] using hc)
        | ok res =>
          obtain ⟨kvs, cs⟩ := res
          rw [hr] at hc key
          exact key c (by simpa [consCalls, outCalls] using hc)
      | @cls cname _ hreg htg hattrs =>
        obtain ⟨dd, hfd, hname⟩ := isRegistered_find env cname hreg
        have hb : env.byTag n.tag = some dd := by rw [htg, byTag_bang']; exact hfd
        have hself : Reach env (.cls cname) dd.name := by
          rw [hname]; exact Reach.cls (Descends.refl _) hreg
        revert hc
        unfold construct
        dsimp only
        rw [hb]
        dsimp only
        cases hk : dd.kind with
        | enum members =>
          dsimp only
          intro hc
          exfalso
          revert hc
          split
          · split <;> simp [consCalls]
          · simp [consCalls]
        | stringLike =>
          dsimp only
          intro hc
          revert hc
          split
          · split
            · simp [consCalls]
            · intro hc
              simp only [consCalls, List.mem_singleton] at hc
              subst hc
              exact hself
          · simp [consCalls]
        | plain =>
          dsimp only
          cases n with
          | scalar _ _ _ => simp [consCalls]
          | seq _ _ _ => simp [consCalls]
          | map t ps m =>
            dsimp only
            split
            · simp [consCalls]
            · rename_i hkeys
              have hkeys' : ∀ p ∈ ps.toList, p.1.isScalarNode = true ∧ p.1.tag = tStr := by
                have : ps.toList.all (fun p => p.1.isScalarNode && p.1.tag == tStr) = true := by simpa using hkeys
                intro p hp
                have := List.all_eq_true.mp this p hp
                simpa using this
              -- the pairs handed to `construct_mapping`
              generalize hps1 : (ps.toList.map (fun p =>
                match p.1 with
                | .scalar _ k _ => if (dd.argNames.filter (· != "_yatiml_extra")).contains k then p else (p.1, stripTags tbl p.2)
                | _ => p)) = ps1
              have hps1keys : ∀ q ∈ ps1, (q.1.tag == tMerge) = false ∧ (q.1.tag == tValue) = false := by
                intro q hq
                rw [← hps1] at hq
                obtain ⟨p, hp, rfl⟩ := List.mem_map.mp hq
                have hk1 := hkeys' p hp
                have hq1 : (match p.1 with
                  | .scalar _ k _ => if (dd.argNames.filter (· != "_yatiml_extra")).contains k then p else (p.1, stripTags tbl p.2)
                  | _ => p).1 = p.1 := by
                  cases hp1 : p.1 with
                  | scalar kt kv km =>
                    dsimp only
                    split
                    · exact hp1
                    · rfl
                  | seq _ _ _ => exact hp1
                  | map _ _ _ => exact hp1
                rw [hq1, hk1.2]
                decide
              rw [flattenPairs_id fuel ps1 hps1keys]
              dsimp only
              have key := consPairs_calls (fun c => Reach env (.cls cname) c.cls) (construct env tbl fuel) ps1 [] []
                (by
                  intro q hq
                  rw [← hps1] at hq
                  obtain ⟨p, hp, rfl⟩ := List.mem_map.mp hq
                  have hk1 := hkeys' p hp
                  cases hp1 : p.1 with
                  | seq _ _ _ => rw [hp1] at hk1; simp [Node.isScalarNode] at hk1
                  | map _ _ _ => rw [hp1] at hk1; simp [Node.isScalarNode] at hk1
                  | scalar kt kv km =>
                    dsimp only
                    split
                    · -- a parameter: the value was processed against the parameter's type
                      rename_i hknown
                      have hk2 : dd.argNames.contains kv = true ∧ kv ≠ "_yatiml_extra" := by
                        have := List.contains_iff_mem.mp hknown
                        simp only [List.mem_filter, bne_iff_ne, ne_eq] at this
                        exact ⟨List.contains_iff_mem.mpr this.1, this.2⟩
                      obtain ⟨prm, hprm, hpn⟩ := hargs cname dd hfd kv hk2.1 hk2.2
                      have hv : p.2 ∈ valuesOf (Node.map t ps m).pairs prm.name := by
                        simp only [Node.pairs, valuesOf, List.mem_map, List.mem_filter]
                        exact ⟨p, ⟨hp, by rw [hp1, hpn]; simp [Node.keyIs]⟩, rfl⟩
                      have htg' := hattrs dd hfd hk prm hprm p.2 hv
                      refine ⟨?_, ?_⟩
                      · intro c hc
                        rw [strKey_quiet env tbl fuel p.1 hk1] at hc
                        cases hc
                      · intro c hc
                        exact Reach.attr (Descends.refl _) hfd hprm (ih p.2 prm.ty htg' (hparamsOk cname dd hfd prm hprm) c hc)
                    · -- not a parameter: stripped to plain data
                      refine ⟨?_, ?_⟩
                      · intro c hc
                        dsimp only at hc
                        rw [← hp1, strKey_quiet env tbl fuel p.1 hk1] at hc
                        cases hc
                      · intro c hc
                        dsimp only at hc
                        rw [quiet_calls _ (construct_quiet env tbl fuel _ (stripTags_allCore tbl htbl p.2))] at hc
                        cases hc)
                (by intro c hc; cases hc)
              intro hc
              cases hr : consPairs (construct env tbl fuel) ps1 [] [] with
              | error err =>
                obtain ⟨e, cs⟩ := err
                rw [hr] at hc key
                exact key c (by simpa [consCalls, outCalls] using hc)
              | ok res =>
                obtain ⟨mapping, calls⟩ := res
                rw [hr] at hc key
                simp only [outCalls] at key
                dsimp only at hc
                revert hc
                split
                · intro hc; exact key c (by simpa [consCalls] using hc)
                · split
                  · intro hc; exact key c (by simpa [consCalls] using hc)
                  · split
                    · intro hc
                      simp only [consCalls, List.mem_append, List.mem_singleton] at hc
                      rcases hc with h1 | h1
                      · exact key c h1
                      · subst h1; exact hself
                    · intro hc
                      simp only [consCalls, List.mem_append, List.mem_singleton] at hc
                      rcases hc with h1 | h1
                      · exact key c h1
                      · subst h1; exact hself

/-- the user-constructor calls of a load, successful or not -/
def allCalls (r : LoadRes) : List Call :=
  match r with
  | .ok o => o.calls
  | .error f => f.calls

/-- **A document cannot make a load construct anything the type does not call for.** -/
theorem loadNode_calls_reach (env : Env) (tbl : List Entry) (htbl : TableCore tbl) (hwf : EnvWF env)
    (hargs : ArgsAreParams env)
    (hparamsOk : ∀ c d, env.find c = some d → ∀ p ∈ d.params, DictKeysOk p.ty)
    (fuel : Nat) (n : Node) (T : Ty) (hT : DictKeysOk T) :
    ∀ c ∈ allCalls (loadNode env tbl fuel n T), Reach env T c.cls := by
  unfold loadNode
  cases hp : processNode env tbl fuel n T with
  | error e => intro c hc; simp [allCalls] at hc
  | ok p =>
    have htag := processNode_tagged env tbl htbl hwf.paramNames fuel n T p hp
    have key := construct_calls_reach env tbl htbl hwf hargs hparamsOk fuel p.node T htag hT
    dsimp only
    cases hc : construct env tbl fuel p.node with
    | error err =>
      obtain ⟨e, calls⟩ := err
      rw [hc] at key
      simpa [allCalls, consCalls] using key
    | ok co =>
      rw [hc] at key
      simpa [allCalls, consCalls] using key

end YatimlModel
