import YatimlModel.Spec.Pipeline
import YatimlModel.Lemmas.RecSound
import YatimlModel.Lemmas.PlainData
/-!
The recogniser (as repaired: element-wise to the end) recognises a node as *some* type exactly when
the node is in the language of the expected type as `Spec.matchesReq` states it — for class models
without custom recognisers and nodes without user tags.
-/
namespace YatimlModel
open NodeOps Spec

theorem len0_iff {α : Type} (l : List α) : (l.length == 0) = true ↔ l = [] := by
  cases l <;> simp

theorem ne_nil_of_len_gt {α : Type} (l : List α) (h : l.length > 1) : l ≠ [] := by
  cases l <;> simp at h ⊢

/-- a remembered ambiguity is never empty -/
def AmbNE (amb : Option RecOut) : Prop := ∀ r, amb = some r → r.1 ≠ []

theorem ambNE_none : AmbNE none := by intro r h; cases h

theorem noteAmb_ne (amb : Option RecOut) (ha : AmbNE amb) (ts : List Ty) (wrap : Ty → Ty) (ls : List Leaf) :
    AmbNE (noteAmb amb ts wrap ls) := by
  unfold noteAmb
  split
  · exact ha
  · split
    · rename_i hgt
      intro r hr
      simp only [Option.some.injEq] at hr
      subst hr
      have : ts ≠ [] := ne_nil_of_len_gt ts (by simpa using hgt)
      simpa using this
    · exact ambNE_none

theorem recDone_ne (T : Ty) (amb : Option RecOut) (ha : AmbNE amb) (ts : List Ty) (ls : List Leaf)
    (h : recDone T amb = .ok (ts, ls)) : ts ≠ [] := by
  unfold recDone at h
  split at h
  · rename_i r
    simp only [Except.ok.injEq] at h
    have := ha r rfl
    rw [h] at this
    exact this
  · simp only [recOk, Except.ok.injEq, Prod.mk.injEq] at h
    rw [← h.1]; simp

/-! ### lists and dicts -/

theorem recListItems_iff (rec : Node → Ty → RecRes) (m : Node → Bool) (T itemTy : Ty) :
    ∀ (items : List Node) (amb : Option RecOut) (ts : List Ty) (ls : List Leaf),
      (∀ x ∈ items, ∀ ts' ls', rec x itemTy = .ok (ts', ls') → (ts' ≠ [] ↔ m x = true)) →
      AmbNE amb → recListItems rec T itemTy amb items = .ok (ts, ls) →
      (ts ≠ [] ↔ items.all m = true) := by
  intro items
  induction items with
  | nil =>
    intro amb ts ls _ ha h
    simp only [recListItems] at h
    simp [recDone_ne T amb ha ts ls h]
  | cons x xs ih =>
    intro amb ts ls hrec ha h
    unfold recListItems at h
    split at h
    · cases h
    · rename_i ts' ls' hx
      have hxm := hrec x List.mem_cons_self ts' ls' hx
      split at h
      · rename_i h0
        have : ts' = [] := (len0_iff ts').mp h0
        simp only [Except.ok.injEq, Prod.mk.injEq] at h
        have hmx : m x = false := by
          cases hm : m x with
          | false => rfl
          | true => exact absurd this (hxm.mpr hm)
        simp [← h.1, hmx]
      · rename_i h0
        have hne : ts' ≠ [] := fun e => h0 ((len0_iff ts').mpr e)
        have hmx : m x = true := hxm.mp hne
        have := ih _ ts ls (fun y hy => hrec y (List.mem_cons_of_mem _ hy)) (noteAmb_ne amb ha ts' _ ls') h
        simp [this, hmx]

theorem recDictPairs_iff (rec : Node → Ty → RecRes) (mk mv : Node → Bool) (T keyTy valTy : Ty) :
    ∀ (ps : List (Node × Node)) (amb : Option RecOut) (ts : List Ty) (ls : List Leaf),
      (∀ p ∈ ps, ∀ ts' ls', rec p.1 keyTy = .ok (ts', ls') → (ts' ≠ [] ↔ mk p.1 = true)) →
      (∀ p ∈ ps, ∀ ts' ls', rec p.2 valTy = .ok (ts', ls') → (ts' ≠ [] ↔ mv p.2 = true)) →
      AmbNE amb → recDictPairs rec T keyTy valTy amb ps = .ok (ts, ls) →
      (ts ≠ [] ↔ ps.all (fun p => mk p.1 && mv p.2) = true) := by
  intro ps
  induction ps with
  | nil =>
    intro amb ts ls _ _ ha h
    simp only [recDictPairs] at h
    simp [recDone_ne T amb ha ts ls h]
  | cons p ps ih =>
    intro amb ts ls hk hv ha h
    obtain ⟨k, v⟩ := p
    unfold recDictPairs at h
    split at h
    · cases h
    · rename_i kts kl hkk
      have hkm := hk (k, v) List.mem_cons_self kts kl hkk
      split at h
      · rename_i h0
        have : kts = [] := (len0_iff kts).mp h0
        simp only [Except.ok.injEq, Prod.mk.injEq] at h
        have hmx : mk k = false := by
          cases hm : mk k with
          | false => rfl
          | true => exact absurd this (hkm.mpr hm)
        simp [← h.1, hmx]
      · rename_i h0
        have hkne : kts ≠ [] := fun e => h0 ((len0_iff kts).mpr e)
        have hmk : mk k = true := hkm.mp hkne
        split at h
        · cases h
        · rename_i vts vl hvv
          have hvm := hv (k, v) List.mem_cons_self vts vl hvv
          split at h
          · rename_i h1
            have : vts = [] := (len0_iff vts).mp h1
            simp only [Except.ok.injEq, Prod.mk.injEq] at h
            have hmx : mv v = false := by
              cases hm : mv v with
              | false => rfl
              | true => exact absurd this (hvm.mpr hm)
            simp [← h.1, hmx]
          · rename_i h1
            have hvne : vts ≠ [] := fun e => h1 ((len0_iff vts).mpr e)
            have hmv : mv v = true := hvm.mp hvne
            have := ih _ ts ls (fun q hq => hk q (List.mem_cons_of_mem _ hq))
              (fun q hq => hv q (List.mem_cons_of_mem _ hq))
              (noteAmb_ne _ (noteAmb_ne amb ha kts _ kl) vts _ vl) h
            simp [this, hmk, hmv]

/-! ### unions -/

theorem unionT_ne (a b : List Ty) : unionT a b ≠ [] ↔ a ≠ [] ∨ b ≠ [] := by
  constructor
  · intro h
    cases hu : unionT a b with
    | nil => exact absurd hu h
    | cons t ts =>
      have : t ∈ unionT a b := by rw [hu]; exact List.mem_cons_self
      rcases (mem_unionT t a b).mp this with h1 | h1
      · exact Or.inl (List.ne_nil_of_mem h1)
      · exact Or.inr (List.ne_nil_of_mem h1)
  · rintro (h | h)
    · obtain ⟨t, ht⟩ := List.exists_mem_of_ne_nil a h
      exact List.ne_nil_of_mem ((mem_unionT t a b).mpr (Or.inl ht))
    · obtain ⟨t, ht⟩ := List.exists_mem_of_ne_nil b h
      exact List.ne_nil_of_mem ((mem_unionT t a b).mpr (Or.inr ht))

theorem recUnionMembers_iff (rec : Node → Ty → RecRes) (m : Ty → Bool) (n : Node) :
    ∀ (ms : List Ty) (acc acc' : UnionAcc),
      (∀ t ∈ ms, ∀ ts' ls', rec n t = .ok (ts', ls') → (ts' ≠ [] ↔ m t = true)) →
      recUnionMembers rec n ms acc = .ok acc' →
      (acc'.types ≠ [] ↔ acc.types ≠ [] ∨ ms.any m = true) := by
  intro ms
  induction ms with
  | nil =>
    intro acc acc' _ h
    simp only [recUnionMembers, Except.ok.injEq] at h
    subst h; simp
  | cons t rest ih =>
    intro acc acc' hrec h
    unfold recUnionMembers at h
    split at h
    · cases h
    · rename_i ts' ls' ht
      have htm := hrec t List.mem_cons_self ts' ls' ht
      have := ih _ acc' (fun u hu => hrec u (List.mem_cons_of_mem _ hu)) h
      rw [this]
      simp only [unionT_ne, List.any_cons, Bool.or_eq_true]
      rw [htm]
      constructor
      · rintro ((h1 | h1) | h1)
        · exact Or.inl h1
        · exact Or.inr (Or.inl h1)
        · exact Or.inr (Or.inr h1)
      · rintro (h1 | h1 | h1)
        · exact Or.inl (Or.inl h1)
        · exact Or.inl (Or.inr h1)
        · exact Or.inr h1

theorem dropBoolFix_ne (ts : List Ty) : dropBoolFix ts ≠ [] ↔ ts ≠ [] := by
  unfold dropBoolFix
  split
  · rename_i h
    simp only [Bool.and_eq_true, List.contains_iff_mem] at h
    constructor
    · intro _; exact List.ne_nil_of_mem h.1
    · intro _
      apply List.ne_nil_of_mem (a := Ty.bool)
      simp [List.mem_filter, h.1]
  · rfl

theorem recUnion_iff (rec : Node → Ty → RecRes) (m : Ty → Bool) (n : Node) (ms : List Ty)
    (hrec : ∀ t ∈ ms, ∀ ts' ls', rec n t = .ok (ts', ls') → (ts' ≠ [] ↔ m t = true))
    (ts : List Ty) (ls : List Leaf) (h : recUnion rec n ms = .ok (ts, ls)) :
    (ts ≠ [] ↔ ms.any m = true) := by
  unfold recUnion at h
  split at h
  · cases h
  · rename_i acc hacc
    have := recUnionMembers_iff rec m n ms ⟨[], []⟩ acc hrec hacc
    simp only [ne_eq, not_true_eq_false, false_or] at this
    have hts : ts = dropBoolFix acc.types := by
      dsimp only at h
      split at h <;> (simp only [Except.ok.injEq, Prod.mk.injEq] at h; exact h.1.symm)
    rw [hts, dropBoolFix_ne]
    exact this

/-! ### one class -/

/-- the answer about one spelling of an attribute name agrees with `valueMatches` -/
theorem tryAttrName_iff (rec : Node → Ty → RecRes) (m : Node → Ty → Bool) (ps : List (Node × Node)) (ty : Ty)
    (name : String)
    (hrec : ∀ v ∈ ps.map (·.2), ∀ ts' ls', rec v ty = .ok (ts', ls') → (ts' ≠ [] ↔ m v ty = true))
    (r : Option (List Leaf)) (h : tryAttrName rec ps ty name = some (.ok r)) :
    hasKey ps name = true ∧ (r = none ↔ valueMatches m ps ty name = true) := by
  unfold tryAttrName at h
  split at h
  · rename_i hk
    refine ⟨hk, ?_⟩
    simp only [Option.some.injEq] at h
    unfold valueMatches
    split at h
    · rename_i v hv
      rw [hv]
      split at h
      · cases h
      · rename_i ts' ls' hr
        have hvmem : v ∈ ps.map (·.2) := by
          have : v ∈ valuesOf ps name := by rw [hv]; exact List.mem_cons_self
          unfold valuesOf at this
          obtain ⟨q, hq, rfl⟩ := List.mem_map.mp this
          exact List.mem_map.mpr ⟨q, (List.mem_filter.mp hq).1, rfl⟩
        have := hrec v hvmem ts' ls' hr
        split at h
        · rename_i h0
          have he : ts' = [] := (len0_iff ts').mp h0
          simp only [Except.ok.injEq] at h
          subst h
          have : m v ty = false := by
            cases hm : m v ty with
            | false => rfl
            | true => exact absurd he (this.mpr hm)
          simp [this]
        · rename_i h0
          have hne : ts' ≠ [] := fun e => h0 ((len0_iff ts').mpr e)
          simp only [Except.ok.injEq] at h
          subst h
          simp [this.mp hne]
    · cases h
  · cases h

theorem tryAttrName_none (rec : Node → Ty → RecRes) (ps : List (Node × Node)) (ty : Ty) (name : String)
    (h : tryAttrName rec ps ty name = none) : hasKey ps name = false := by
  unfold tryAttrName at h
  split at h
  · cases h
  · rename_i hk; simpa using hk

theorem recAttr_iff (rec : Node → Ty → RecRes) (m : Node → Ty → Bool) (n : Node) (ps : List (Node × Node))
    (p : Param)
    (hrec : ∀ v ∈ ps.map (·.2), ∀ ts' ls', rec v p.ty = .ok (ts', ls') → (ts' ≠ [] ↔ m v p.ty = true))
    (r : Option (List Leaf)) (h : recAttr rec n ps p = .ok r) :
    (r = none ↔ attrMatches m ps p = true) := by
  unfold recAttr at h
  unfold attrMatches
  split at h
  · rename_i r1 h1
    subst h
    obtain ⟨hk, hiff⟩ := tryAttrName_iff rec m ps p.ty p.name hrec r h1
    rw [if_pos hk]; exact hiff
  · rename_i h1
    have hk1 := tryAttrName_none rec ps p.ty p.name h1
    rw [if_neg (by simp [hk1])]
    split at h
    · rename_i r2 h2
      subst h
      obtain ⟨hk, hiff⟩ := tryAttrName_iff rec m ps p.ty (dashed p.name) hrec r h2
      rw [if_pos hk]; exact hiff
    · rename_i h2
      have hk2 := tryAttrName_none rec ps p.ty (dashed p.name) h2
      rw [if_neg (by simp [hk2])]
      split at h
      · rename_i hreq
        simp only [Except.ok.injEq] at h
        subst h
        simp [hreq]
      · rename_i hreq
        simp only [Except.ok.injEq] at h
        subst h
        simp [hreq]

theorem recAttrs_iff (rec : Node → Ty → RecRes) (m : Node → Ty → Bool) (n : Node) (ps : List (Node × Node))
    (hrec : ∀ v ∈ ps.map (·.2), ∀ U ts' ls', rec v U = .ok (ts', ls') → (ts' ≠ [] ↔ m v U = true)) :
    ∀ (params : List Param) (r : Option (List Leaf)), recAttrs rec n ps params = .ok r →
      (r = none ↔ params.all (attrMatches m ps) = true) := by
  intro params
  induction params with
  | nil =>
    intro r h
    simp only [recAttrs, Except.ok.injEq] at h
    subst h; simp
  | cons p rest ih =>
    intro r h
    unfold recAttrs at h
    split at h
    · cases h
    · rename_i leaves hp
      have := recAttr_iff rec m n ps p (fun v hv => hrec v hv p.ty) (some leaves) hp
      simp only [Except.ok.injEq] at h
      subst h
      have hf : attrMatches m ps p = false := by
        cases hm : attrMatches m ps p with
        | false => rfl
        | true => exact absurd (this.mpr hm) (by simp)
      simp [hf]
    · rename_i hp
      have := recAttr_iff rec m n ps p (fun v hv => hrec v hv p.ty) none hp
      have ht : attrMatches m ps p = true := this.mp rfl
      have := ih r h
      simp [this, ht]

theorem recScalar_iff (n : Node) (T : Ty) (tag : String) (ts : List Ty) (ls : List Leaf)
    (h : recScalar n T tag = .ok (ts, ls)) : (ts ≠ [] ↔ scalarTagged n tag = true) := by
  unfold recScalar at h
  unfold scalarTagged
  split at h
  · split at h
    · rename_i ht
      simp only [recOk, Except.ok.injEq, Prod.mk.injEq] at h
      simp [← h.1, ht]
    · rename_i ht
      simp only [recFail, Except.ok.injEq, Prod.mk.injEq] at h
      simp [← h.1, ht]
  · rename_i hns
    simp only [recFail, Except.ok.injEq, Prod.mk.injEq] at h
    rw [← h.1]
    cases n with
    | scalar t v mk => exact absurd rfl (hns t v mk)
    | seq _ _ _ => simp
    | map _ _ _ => simp

theorem recUserClass_iff (env : Env) (rec : Node → Ty → RecRes) (m : Node → Ty → Bool) (n : Node) (d : ClassDef)
    (hauto : d.recognize = none)
    (hrec : ∀ v ∈ n.pairs.map (·.2), ∀ U ts' ls', rec v U = .ok (ts', ls') → (ts' ≠ [] ↔ m v U = true))
    (ts : List Ty) (ls : List Leaf) (h : recUserClass env rec n d = .ok (ts, ls)) :
    (ts ≠ [] ↔ classMatches m d n = true) := by
  unfold recUserClass at h
  rw [hauto] at h
  unfold classMatches
  dsimp only at h
  cases hk : d.kind with
  | enum ms =>
    rw [hk] at h
    dsimp only at h
    cases n with
    | scalar t v mk =>
      dsimp only at h
      simp only [scalarTagged]
      split at h
      · rename_i ht
        simp only [recOk, Except.ok.injEq, Prod.mk.injEq] at h
        rw [← h.1]
        simpa using ht
      · rename_i ht
        simp only [recFail, Except.ok.injEq, Prod.mk.injEq] at h
        rw [← h.1]
        simpa using ht
    | seq _ _ _ =>
      simp only [recFail, Except.ok.injEq, Prod.mk.injEq] at h
      simp [← h.1, scalarTagged]
    | map _ _ _ =>
      simp only [recFail, Except.ok.injEq, Prod.mk.injEq] at h
      simp [← h.1, scalarTagged]
  | stringLike =>
    rw [hk] at h
    dsimp only at h
    cases n with
    | scalar t v mk =>
      dsimp only at h
      simp only [scalarTagged]
      split at h
      · rename_i ht
        simp only [recOk, Except.ok.injEq, Prod.mk.injEq] at h
        rw [← h.1]
        simpa using ht
      · rename_i ht
        simp only [recFail, Except.ok.injEq, Prod.mk.injEq] at h
        rw [← h.1]
        simpa using ht
    | seq _ _ _ =>
      simp only [recFail, Except.ok.injEq, Prod.mk.injEq] at h
      simp [← h.1, scalarTagged]
    | map _ _ _ =>
      simp only [recFail, Except.ok.injEq, Prod.mk.injEq] at h
      simp [← h.1, scalarTagged]
  | plain =>
    rw [hk] at h
    dsimp only at h
    cases n with
    | scalar _ _ _ =>
      simp only [recFail, Except.ok.injEq, Prod.mk.injEq] at h
      simp [← h.1]
    | seq _ _ _ =>
      simp only [recFail, Except.ok.injEq, Prod.mk.injEq] at h
      simp [← h.1]
    | map t ps mk =>
      dsimp only at h
      split at h
      · cases h
      · rename_i hra
        have := recAttrs_iff rec m (.map t ps mk) ps.toList hrec d.params none hra
        simp only [recOk, Except.ok.injEq, Prod.mk.injEq] at h
        rw [← h.1]
        simp [this.mp rfl]
      · rename_i leaves hra
        have := recAttrs_iff rec m (.map t ps mk) ps.toList hrec d.params (some leaves) hra
        simp only [Except.ok.injEq, Prod.mk.injEq] at h
        rw [← h.1]
        have hf : d.params.all (attrMatches m ps.toList) = false := by
          cases hm : d.params.all (attrMatches m ps.toList) with
          | false => rfl
          | true => exact absurd (this.mpr hm) (by simp)
        simp [hf]

/-! ### the hierarchy -/

theorem recSubclasses_iff (recC : ClassDef → RecRes) (m : ClassDef → Bool) :
    ∀ (ds : List ClassDef) (acc acc' : ClsAcc),
      (∀ d ∈ ds, ∀ ts' ls', recC d = .ok (ts', ls') → (ts' ≠ [] ↔ m d = true)) →
      recSubclasses recC ds acc = .ok acc' →
      (acc'.types ≠ [] ↔ acc.types ≠ [] ∨ ds.any m = true) := by
  intro ds
  induction ds with
  | nil =>
    intro acc acc' _ h
    simp only [recSubclasses, Except.ok.injEq] at h
    subst h; simp
  | cons d rest ih =>
    intro acc acc' hrec h
    unfold recSubclasses at h
    split at h
    · cases h
    · rename_i ts' ls' hd
      have hdm := hrec d List.mem_cons_self ts' ls' hd
      have := ih _ acc' (fun u hu => hrec u (List.mem_cons_of_mem _ hu)) h
      rw [this]
      simp only [unionT_ne, List.any_cons, Bool.or_eq_true]
      rw [hdm]
      constructor
      · rintro ((h1 | h1) | h1)
        · exact Or.inl h1
        · exact Or.inr (Or.inl h1)
        · exact Or.inr (Or.inr h1)
      · rintro (h1 | h1 | h1)
        · exact Or.inl (Or.inl h1)
        · exact Or.inl (Or.inr h1)
        · exact Or.inr h1

theorem core_short (t : String) (h : hasPrefix corePrefix t = true) : hasPrefix "tag:yaml.org,2002" t = true := by
  unfold hasPrefix at *
  rw [List.isPrefixOf_iff_prefix] at *
  have : "tag:yaml.org,2002".toList <+: corePrefix.toList := ⟨[':'], by decide⟩
  exact this.trans h

/-- for a node without a user tag the tail of `__recognize_user_classes` keeps every candidate -/
theorem finishClasses_core (env : Env) (n : Node) (top : Bool) (ts0 : List Ty) (causes : List (List Leaf))
    (hcore : hasPrefix corePrefix n.tag = true) (ts : List Ty) (ls : List Leaf)
    (h : finishClasses env n top ts0 causes = .ok (ts, ls)) : (ts ≠ [] ↔ ts0 ≠ []) := by
  unfold finishClasses at h
  split at h
  · rename_i h0
    have : ts0 = [] := (len0_iff ts0).mp h0
    simp only [Except.ok.injEq, Prod.mk.injEq] at h
    simp [← h.1, this]
  · rename_i h0
    have hne : ts0 ≠ [] := fun e => h0 ((len0_iff ts0).mpr e)
    split at h
    · rw [byTag_core env n.tag hcore] at h
      simp only [Except.ok.injEq, Prod.mk.injEq] at h
      simp [← h.1, hne]
    · rw [core_short n.tag hcore] at h
      simp only [Bool.not_true, Bool.false_eq_true, ↓reduceIte, Except.ok.injEq, Prod.mk.injEq] at h
      simp [← h.1, hne]

theorem node_tag_core (n : Node) (h : AllCore n) : hasPrefix corePrefix n.tag = true := by
  cases n with
  | scalar t v m => simpa [AllCore, Node.tag] using h
  | seq t xs m => simp only [AllCore] at h; simpa [Node.tag] using h.1
  | map t ps m => simp only [AllCore] at h; simpa [Node.tag] using h.1

theorem allCore_value (n : Node) (h : AllCore n) (v : Node) (hv : v ∈ n.pairs.map (·.2)) : AllCore v := by
  cases n with
  | scalar _ _ _ => simp [Node.pairs] at hv
  | seq _ _ _ => simp [Node.pairs] at hv
  | map t ps m =>
    simp only [AllCore] at h
    simp only [Node.pairs] at hv
    obtain ⟨p, hp, rfl⟩ := List.mem_map.mp hv
    exact ((allCoreP_iff ps).mp h.2 p hp).2

/-! ### the characterisation -/

def AutoRecognised (env : Env) : Prop := ∀ d ∈ env.registered, d.recognize = none

theorem find_mem' (env : Env) (c : String) (d : ClassDef) (h : env.find c = some d) : d ∈ env.registered := by
  unfold Env.find at h
  exact List.mem_of_find?_eq_some h

/-- **Recognition is exactly the documented language membership.**  For a class model without custom
recognisers and a node without user tags: whenever recognition returns (no `SeasoningError` for a
repeated key, no unregistered class in the type), it recognises the node as at least one type if and
only if the node matches the expected type as `Spec.matchesReq` defines it. -/
theorem recognizeReq_iff_matches (env : Env) (hauto : AutoRecognised env) :
    ∀ (fuel : Nat) (n : Node) (q : Req) (ts : List Ty) (ls : List Leaf), AllCore n →
      recognizeReq env fuel n q = .ok (ts, ls) → (ts ≠ [] ↔ matchesReq env fuel n q = true) := by
  intro fuel
  induction fuel with
  | zero => intro n q ts ls _ h; simp [recognizeReq] at h
  | succ fuel ih =>
    intro n q ts ls hcore h
    cases q with
    | ty T =>
      cases T with
      | str => simp only [recognizeReq] at h; simpa [matchesReq] using recScalar_iff n _ _ ts ls h
      | int => simp only [recognizeReq] at h; simpa [matchesReq] using recScalar_iff n _ _ ts ls h
      | float => simp only [recognizeReq] at h; simpa [matchesReq] using recScalar_iff n _ _ ts ls h
      | bool => simp only [recognizeReq] at h; simpa [matchesReq] using recScalar_iff n _ _ ts ls h
      | boolFix => simp only [recognizeReq] at h; simpa [matchesReq] using recScalar_iff n _ _ ts ls h
      | null => simp only [recognizeReq] at h; simpa [matchesReq] using recScalar_iff n _ _ ts ls h
      | date => simp only [recognizeReq] at h; simpa [matchesReq] using recScalar_iff n _ _ ts ls h
      | path => simp only [recognizeReq] at h; simpa [matchesReq] using recScalar_iff n _ _ ts ls h
      | any =>
        simp only [recognizeReq, recOk, Except.ok.injEq, Prod.mk.injEq] at h
        simp [matchesReq, ← h.1]
      | union ms =>
        simp only [recognizeReq] at h
        simp only [matchesReq]
        exact recUnion_iff _ (fun m => matchesReq env fuel n (.ty m)) n ms.toList
          (fun t _ ts' ls' h' => ih n (.ty t) ts' ls' hcore h') ts ls h
      | seq k item =>
        simp only [recognizeReq, recList] at h
        simp only [matchesReq]
        cases n with
        | seq t items mk =>
          dsimp only at h ⊢
          have hitems : ∀ x ∈ items.toList, AllCore x := by
            simp only [AllCore] at hcore
            exact (allCoreL_iff items).mp hcore.2
          exact recListItems_iff _ (fun x => matchesReq env fuel x (.ty item)) _ item items.toList none ts ls
            (fun x hx ts' ls' h' => ih x (.ty item) ts' ls' (hitems x hx) h') ambNE_none h
        | scalar _ _ _ =>
          simp only [recFail, Except.ok.injEq, Prod.mk.injEq] at h
          simp [← h.1]
        | map _ _ _ =>
          simp only [recFail, Except.ok.injEq, Prod.mk.injEq] at h
          simp [← h.1]
      | map k a b =>
        simp only [recognizeReq, recDict] at h
        simp only [matchesReq]
        split at h
        · cases h
        · rename_i hkt
          have hkt' : keyTypeOk env a = true := by simpa using hkt
          rw [hkt']
          simp only [Bool.true_and]
          cases n with
          | map t ps mk =>
            dsimp only at h ⊢
            have hps : ∀ p ∈ ps.toList, AllCore p.1 ∧ AllCore p.2 := by
              simp only [AllCore] at hcore
              exact (allCoreP_iff ps).mp hcore.2
            exact recDictPairs_iff _ (fun x => matchesReq env fuel x (.ty a)) (fun x => matchesReq env fuel x (.ty b))
              _ a b ps.toList none ts ls
              (fun p hp ts' ls' h' => ih p.1 (.ty a) ts' ls' (hps p hp).1 h')
              (fun p hp ts' ls' h' => ih p.2 (.ty b) ts' ls' (hps p hp).2 h') ambNE_none h
          | scalar _ _ _ =>
            simp only [recFail, Except.ok.injEq, Prod.mk.injEq] at h
            simp [← h.1]
          | seq _ _ _ =>
            simp only [recFail, Except.ok.injEq, Prod.mk.injEq] at h
            simp [← h.1]
      | cls c =>
        simp only [recognizeReq] at h
        simp only [matchesReq]
        split at h
        · rename_i hreg
          rw [hreg]
          simp only [Bool.true_and]
          exact ih n (.classes c true) ts ls hcore h
        · cases h
    | classes c top =>
      simp only [recognizeReq] at h
      simp only [matchesReq]
      cases hf : env.find c with
      | none => rw [hf] at h; cases h
      | some d =>
        rw [hf] at h
        dsimp only at h ⊢
        have hd : d.recognize = none := hauto d (find_mem' env c d hf)
        have htag := node_tag_core n hcore
        split at h
        · cases h
        · rename_i acc hacc
          have hsub := recSubclasses_iff _ (fun s => matchesReq env fuel n (.classes s.name false))
            (env.directSubclasses c) ⟨[], []⟩ acc
            (fun s _ ts' ls' h' => ih n (.classes s.name false) ts' ls' hcore h') hacc
          simp only [ne_eq, not_true_eq_false, false_or] at hsub
          split at h
          · rename_i h0
            have hempty : acc.types = [] := (len0_iff _).mp h0
            have hnone : (env.directSubclasses c).any (fun s => matchesReq env fuel n (.classes s.name false)) = false := by
              cases hb : (env.directSubclasses c).any (fun s => matchesReq env fuel n (.classes s.name false)) with
              | false => rfl
              | true => exact absurd hempty (hsub.mpr hb)
            rw [hnone]
            simp only [Bool.false_or]
            split at h
            · rename_i habs
              have := finishClasses_core env n top [] acc.causes htag ts ls h
              simp [this, habs]
            · rename_i habs
              have habs' : d.abstract = false := by simpa using habs
              rw [habs']
              simp only [Bool.not_false, Bool.true_and]
              split at h
              · cases h
              · rename_i ts' ls' huc
                have huci := recUserClass_iff env _ (fun x U => matchesReq env fuel x (.ty U)) n d hd
                  (fun v hv U ts'' ls'' h' => ih v (.ty U) ts'' ls'' (allCore_value n hcore v hv) h') ts' ls' huc
                have := finishClasses_core env n top ts' _ htag ts ls h
                rw [this]; exact huci
          · rename_i h0
            have hne : acc.types ≠ [] := fun e => h0 ((len0_iff _).mpr e)
            have := finishClasses_core env n top acc.types acc.causes htag ts ls h
            rw [this]
            simp [hsub.mp hne, hne]

end YatimlModel
