import YatimlModel.Model.Regex
namespace YatimlModel
open Re

theorem CSet.beq_iff (a b : CSet) : CSet.beq a b = true ↔ a = b := by
  induction a generalizing b with
  | nil => cases b <;> simp [CSet.beq]
  | cons p xs ih =>
    cases b with
    | nil => simp [CSet.beq]
    | cons q ys =>
      obtain ⟨p1, p2⟩ := p
      obtain ⟨q1, q2⟩ := q
      simp only [CSet.beq, Bool.and_eq_true, ih, List.cons.injEq, Prod.mk.injEq]
      constructor
      · rintro ⟨⟨h1, h2⟩, h3⟩; exact ⟨⟨Nat.eq_of_beq_eq_true h1, Nat.eq_of_beq_eq_true h2⟩, h3⟩
      · rintro ⟨⟨h1, h2⟩, h3⟩; subst h1; subst h2; exact ⟨⟨Nat.beq_refl _, Nat.beq_refl _⟩, h3⟩

theorem Re.beq_iff (a b : Re) : Re.beq a b = true ↔ a = b := by
  induction a generalizing b with
  | empty => cases b <;> simp [Re.beq]
  | eps => cases b <;> simp [Re.beq]
  | set cs => cases b <;> simp [Re.beq, CSet.beq_iff]
  | cat x y ihx ihy => cases b <;> simp [Re.beq, ihx, ihy]
  | alt x y ihx ihy => cases b <;> simp [Re.beq, ihx, ihy]
  | star x ih => cases b <;> simp [Re.beq, ih]

instance : LawfulBEq Re where
  eq_of_beq h := (Re.beq_iff _ _).mp h
  rfl := (Re.beq_iff _ _).mpr rfl

instance : DecidableEq Re := fun a b =>
  decidable_of_iff (Re.beq a b = true) (Re.beq_iff a b)

theorem ble_dec (a b : Nat) : Nat.ble a b = decide (a ≤ b) := by
  rw [Bool.eq_iff_iff]; simp [Nat.ble_eq]

end YatimlModel
