import YatimlModel.Model.Recognize
/-!
Soundness of recognition: every type `recognize` returns is *admitted* by the
expected type (a member of the union, the type itself, a registered concrete
class reachable from the expected class through registered direct-subclass
edges, or an element-wise re-wrapping of such a type), whatever the document,
the tags in it and the custom recognisers are.
-/
namespace YatimlModel

theorem mem_insertT (t x : Ty) (s : List Ty) : t ∈ insertT x s ↔ t = x ∨ t ∈ s := by
  unfold insertT
  split
  · rename_i h
    constructor
    · intro h'; exact Or.inr h'
    · rintro (rfl | h')
      · simpa using h
      · exact h'
  · simp [List.mem_append]; grind

theorem mem_unionT (t : Ty) (a b : List Ty) : t ∈ unionT a b ↔ t ∈ a ∨ t ∈ b := by
  unfold unionT
  induction b generalizing a with
  | nil => simp
  | cons x xs ih => simp only [List.foldl_cons, ih, mem_insertT, List.mem_cons]; grind

theorem mem_dropBoolFix (t : Ty) (ts : List Ty) (h : t ∈ dropBoolFix ts) : t ∈ ts := by
  unfold dropBoolFix at h
  split at h
  · exact (List.mem_filter.mp h).1
  · exact h

/-- `d` is `c` or reachable from `c` through registered direct-subclass edges -/
inductive Descends (env : Env) : String → String → Prop
  | refl (c : String) : Descends env c c
  | step {c e : String} (d : ClassDef) : d ∈ env.directSubclasses c → Descends env d.name e →
      Descends env c e

/-- a registered, concrete class -/
def Concrete (env : Env) (d : String) : Prop :=
  ∃ dd, env.find d = some dd ∧ dd.abstract = false

inductive Admits (env : Env) : Ty → Ty → Prop
  | self (T : Ty) (h : ∀ c, T ≠ .cls c) (h' : ∀ ms, T ≠ .union ms) : Admits env T T
  | unionMem {ms : Tys} {m t : Ty} : m ∈ ms.toList → Admits env m t → Admits env (.union ms) t
  | cls {c d : String} : Descends env c d → Concrete env d → Admits env (.cls c) (.cls d)
  | seqItem {k : SeqKind} {i t : Ty} : Admits env i t → Admits env (.seq k i) (.seq .list t)
  | mapKey {k : MapKind} {a b t : Ty} : Admits env a t → Admits env (.map k a b) (.map .dict t b)
  | mapVal {k : MapKind} {a b t : Ty} : Admits env b t → Admits env (.map k a b) (.map .dict a t)

/-- what an answer to a request may contain -/
def ReqOk (env : Env) : Req → Ty → Prop
  | .ty T, t => Admits env T t
  | .classes c _, t => ∃ d, t = .cls d ∧ Descends env c d ∧ Concrete env d

def ResOk (env : Env) (q : Req) (r : RecRes) : Prop :=
  match r with
  | .ok (ts, _) => ∀ t ∈ ts, ReqOk env q t
  | .error _ => True

/-! ### the helpers preserve the invariant -/

theorem recOk_types (T t : Ty) (ls : List Leaf) (ts : List Ty) (h : recOk T = .ok (ts, ls)) (ht : t ∈ ts) :
    t = T := by
  simp only [recOk, Except.ok.injEq, Prod.mk.injEq] at h
  rw [← h.1] at ht
  simpa using ht

theorem recFail_types (m : List Mark) (k : List String) (t : Ty) (ls : List Leaf) (ts : List Ty)
    (h : recFail m k = .ok (ts, ls)) (ht : t ∈ ts) : False := by
  simp only [recFail, Except.ok.injEq, Prod.mk.injEq] at h
  rw [← h.1] at ht
  cases ht

theorem recScalar_types (n : Node) (T : Ty) (tag : String) (ts : List Ty) (ls : List Leaf) (t : Ty)
    (h : recScalar n T tag = .ok (ts, ls)) (ht : t ∈ ts) : t = T := by
  unfold recScalar at h
  split at h
  · split at h
    · exact recOk_types T t ls ts h ht
    · exact (recFail_types _ _ t ls ts h ht).elim
  · exact (recFail_types _ _ t ls ts h ht).elim

/-- what a remembered ambiguity may contain -/
def AmbOk (Q : Ty → Prop) (amb : Option RecOut) : Prop := ∀ r, amb = some r → ∀ t ∈ r.1, Q t

theorem ambOk_none (Q : Ty → Prop) : AmbOk Q none := by
  intro r h; cases h

theorem recDone_types (T : Ty) (Q : Ty → Prop) (hT : Q T) (amb : Option RecOut) (ha : AmbOk Q amb)
    (ts : List Ty) (ls : List Leaf) (h : recDone T amb = .ok (ts, ls)) : ∀ t ∈ ts, Q t := by
  intro t ht
  unfold recDone at h
  split at h
  · rename_i r
    simp only [Except.ok.injEq] at h
    have := ha r rfl t
    rw [h] at this
    exact this ht
  · rw [recOk_types T t ls ts h ht]; exact hT

theorem noteAmb_ok (Q : Ty → Prop) (amb : Option RecOut) (ha : AmbOk Q amb) (ts : List Ty) (wrap : Ty → Ty)
    (leaves : List Leaf) (hw : ∀ u ∈ ts, Q (wrap u)) : AmbOk Q (noteAmb amb ts wrap leaves) := by
  unfold noteAmb
  split
  · exact ha
  · split
    · intro r hr t ht
      simp only [Option.some.injEq] at hr
      subst hr
      obtain ⟨u, hu, rfl⟩ := List.mem_map.mp ht
      exact hw u hu
    · exact ambOk_none Q

theorem recListItems_types (rec : Node → Ty → RecRes) (T itemTy : Ty) (P : Ty → Prop)
    (hrec : ∀ x ts ls, rec x itemTy = .ok (ts, ls) → ∀ t ∈ ts, P t) :
    ∀ (items : List Node) (amb : Option RecOut) (ts : List Ty) (ls : List Leaf),
      AmbOk (fun t => t = T ∨ ∃ u, P u ∧ t = .seq .list u) amb →
      recListItems rec T itemTy amb items = .ok (ts, ls) →
      ∀ t ∈ ts, t = T ∨ ∃ u, P u ∧ t = .seq .list u := by
  intro items
  induction items with
  | nil =>
    intro amb ts ls ha h
    simp only [recListItems] at h
    exact recDone_types T _ (Or.inl rfl) amb ha ts ls h
  | cons x xs ih =>
    intro amb ts ls ha h t ht
    unfold recListItems at h
    split at h
    · cases h
    · rename_i ts' ls' hx
      split at h
      · simp only [Except.ok.injEq, Prod.mk.injEq] at h
        rw [← h.1] at ht; cases ht
      · refine ih _ ts ls (noteAmb_ok _ amb ha ts' _ ls' ?_) h t ht
        intro u hu
        exact Or.inr ⟨u, hrec x ts' ls' hx u hu, rfl⟩

theorem recDictPairs_types (rec : Node → Ty → RecRes) (T keyTy valTy : Ty) (PK PV : Ty → Prop)
    (hk : ∀ x ts ls, rec x keyTy = .ok (ts, ls) → ∀ t ∈ ts, PK t)
    (hv : ∀ x ts ls, rec x valTy = .ok (ts, ls) → ∀ t ∈ ts, PV t) :
    ∀ (ps : List (Node × Node)) (amb : Option RecOut) (ts : List Ty) (ls : List Leaf),
      AmbOk (fun t => t = T ∨ (∃ u, PK u ∧ t = .map .dict u valTy) ∨ (∃ u, PV u ∧ t = .map .dict keyTy u)) amb →
      recDictPairs rec T keyTy valTy amb ps = .ok (ts, ls) →
      ∀ t ∈ ts, t = T ∨ (∃ u, PK u ∧ t = .map .dict u valTy) ∨ (∃ u, PV u ∧ t = .map .dict keyTy u) := by
  intro ps
  induction ps with
  | nil =>
    intro amb ts ls ha h
    simp only [recDictPairs] at h
    exact recDone_types T _ (Or.inl rfl) amb ha ts ls h
  | cons p ps ih =>
    intro amb ts ls ha h t ht
    obtain ⟨k, v⟩ := p
    unfold recDictPairs at h
    split at h
    · cases h
    · rename_i kts kl hkk
      split at h
      · simp only [Except.ok.injEq, Prod.mk.injEq] at h
        rw [← h.1] at ht; cases ht
      · split at h
        · cases h
        · rename_i vts vl hvv
          split at h
          · simp only [Except.ok.injEq, Prod.mk.injEq] at h
            rw [← h.1] at ht; cases ht
          · refine ih _ ts ls (noteAmb_ok _ _ (noteAmb_ok _ amb ha kts _ kl ?_) vts _ vl ?_) h t ht
            · intro u hu
              exact Or.inr (Or.inl ⟨u, hk k kts kl hkk u hu, rfl⟩)
            · intro u hu
              exact Or.inr (Or.inr ⟨u, hv v vts vl hvv u hu, rfl⟩)

theorem recUnionMembers_types (rec : Node → Ty → RecRes) (n : Node) (P : Ty → Prop) :
    ∀ (ms : List Ty) (acc acc' : UnionAcc),
      (∀ m ∈ ms, ∀ ts ls, rec n m = .ok (ts, ls) → ∀ t ∈ ts, P t) →
      (∀ t ∈ acc.types, P t) →
      recUnionMembers rec n ms acc = .ok acc' → ∀ t ∈ acc'.types, P t := by
  intro ms
  induction ms with
  | nil =>
    intro acc acc' _ hacc h t ht
    simp only [recUnionMembers, Except.ok.injEq] at h
    rw [← h] at ht; exact hacc t ht
  | cons m ms ih =>
    intro acc acc' hrec hacc h t ht
    unfold recUnionMembers at h
    split at h
    · cases h
    · rename_i ts ls hm
      refine ih _ acc' (fun m' hm' => hrec m' (List.mem_cons_of_mem _ hm')) ?_ h t ht
      intro t' ht'
      simp only at ht'
      rcases (mem_unionT t' acc.types ts).mp ht' with h1 | h1
      · exact hacc t' h1
      · exact hrec m List.mem_cons_self ts ls hm t' h1

theorem recUnion_types (rec : Node → Ty → RecRes) (n : Node) (members : List Ty) (P : Ty → Prop)
    (hrec : ∀ m ∈ members, ∀ ts ls, rec n m = .ok (ts, ls) → ∀ t ∈ ts, P t)
    (ts : List Ty) (ls : List Leaf) (h : recUnion rec n members = .ok (ts, ls)) : ∀ t ∈ ts, P t := by
  unfold recUnion at h
  split at h
  · cases h
  · rename_i acc hacc
    have hall := recUnionMembers_types rec n P members ⟨[], []⟩ acc hrec (by intro t ht; cases ht) hacc
    intro t ht
    dsimp only at h
    split at h
    all_goals
      simp only [Except.ok.injEq, Prod.mk.injEq] at h
      rw [← h.1] at ht
      exact hall t (mem_dropBoolFix t _ ht)

theorem recUserClass_types (env : Env) (rec : Node → Ty → RecRes) (n : Node) (d : ClassDef)
    (ts : List Ty) (ls : List Leaf) (h : recUserClass env rec n d = .ok (ts, ls)) :
    ∀ t ∈ ts, t = .cls d.name := by
  intro t ht
  unfold recUserClass at h
  split at h
  · split at h
    · cases h
    · exact recOk_types _ t ls ts h ht
    · exact (recFail_types _ _ t ls ts h ht).elim
  · split at h
    · split at h
      · split at h
        · exact recOk_types _ t ls ts h ht
        · exact (recFail_types _ _ t ls ts h ht).elim
      · exact (recFail_types _ _ t ls ts h ht).elim
    · split at h
      · split at h
        · exact recOk_types _ t ls ts h ht
        · exact (recFail_types _ _ t ls ts h ht).elim
      · exact (recFail_types _ _ t ls ts h ht).elim
    · split at h
      · split at h
        · cases h
        · exact recOk_types _ t ls ts h ht
        · simp only [Except.ok.injEq, Prod.mk.injEq] at h
          rw [← h.1] at ht; cases ht
      · exact (recFail_types _ _ t ls ts h ht).elim

theorem recSubclasses_types (recC : ClassDef → RecRes) (P : Ty → Prop) :
    ∀ (ds : List ClassDef) (acc acc' : ClsAcc),
      (∀ d ∈ ds, ∀ ts ls, recC d = .ok (ts, ls) → ∀ t ∈ ts, P t) →
      (∀ t ∈ acc.types, P t) →
      recSubclasses recC ds acc = .ok acc' → ∀ t ∈ acc'.types, P t := by
  intro ds
  induction ds with
  | nil =>
    intro acc acc' _ hacc h t ht
    simp only [recSubclasses, Except.ok.injEq] at h
    rw [← h] at ht; exact hacc t ht
  | cons d ds ih =>
    intro acc acc' hrec hacc h t ht
    unfold recSubclasses at h
    split at h
    · cases h
    · rename_i ts ls hd
      refine ih _ acc' (fun d' hd' => hrec d' (List.mem_cons_of_mem _ hd')) ?_ h t ht
      intro t' ht'
      simp only at ht'
      rcases (mem_unionT t' acc.types ts).mp ht' with h1 | h1
      · exact hacc t' h1
      · exact hrec d List.mem_cons_self ts ls hd t' h1

theorem finishClasses_types (env : Env) (n : Node) (top : Bool) (ts0 : List Ty)
    (causes : List (List Leaf)) (ts : List Ty) (ls : List Leaf)
    (h : finishClasses env n top ts0 causes = .ok (ts, ls)) : ∀ t ∈ ts, t ∈ ts0 := by
  intro t ht
  unfold finishClasses at h
  split at h
  · simp only [Except.ok.injEq, Prod.mk.injEq] at h
    rw [← h.1] at ht; cases ht
  · split at h
    · split at h
      · split at h
        · rename_i hc
          have := recOk_types _ t ls ts h ht
          rw [this]; simpa using hc
        · simp only [Except.ok.injEq, Prod.mk.injEq] at h
          rw [← h.1] at ht; exact ht
      · simp only [Except.ok.injEq, Prod.mk.injEq] at h
        rw [← h.1] at ht; exact ht
    · split at h
      · split at h
        · split at h
          · simp only [Except.ok.injEq, Prod.mk.injEq] at h
            rw [← h.1] at ht; exact ht
          · exact (recFail_types _ _ t ls ts h ht).elim
        · exact (recFail_types _ _ t ls ts h ht).elim
      · simp only [Except.ok.injEq, Prod.mk.injEq] at h
        rw [← h.1] at ht; exact ht

theorem find_name (env : Env) (c : String) (d : ClassDef) (h : env.find c = some d) : d.name = c := by
  unfold Env.find at h
  have := List.find?_some h
  simpa using this

/-! ### the main induction -/

theorem recognizeReq_ok (env : Env) : ∀ (fuel : Nat) (n : Node) (q : Req), ResOk env q (recognizeReq env fuel n q) := by
  intro fuel
  induction fuel with
  | zero => intro n q; simp [recognizeReq, ResOk]
  | succ fuel ih =>
    intro n q
    have ihT : ∀ (x : Node) (U : Ty) ts ls, recognizeReq env fuel x (.ty U) = .ok (ts, ls) →
        ∀ t ∈ ts, Admits env U t := by
      intro x U ts ls h t ht
      have := ih x (.ty U)
      rw [h] at this
      exact this t ht
    cases q with
    | ty T =>
      cases T with
      | union ms =>
        simp only [recognizeReq]
        unfold ResOk
        split
        · rename_i ts ls h
          intro t ht
          have := recUnion_types _ n ms.toList (fun t => ∃ m ∈ ms.toList, Admits env m t)
            (fun m hm ts' ls' h' t' ht' => ⟨m, hm, ihT n m ts' ls' h' t' ht'⟩) ts ls h t ht
          obtain ⟨m, hm, ha⟩ := this
          exact Admits.unionMem hm ha
        · trivial
      | seq k item =>
        simp only [recognizeReq]
        unfold ResOk
        split
        · rename_i ts ls h
          intro t ht
          unfold recList at h
          split at h
          · have := recListItems_types _ (.seq k item) item (Admits env item)
              (fun x ts' ls' h' => ihT x item ts' ls' h') _ none ts ls (ambOk_none _) h t ht
            rcases this with rfl | ⟨u, hu, rfl⟩
            · exact Admits.self _ (by intro c; simp) (by intro ms; simp)
            · exact Admits.seqItem hu
          · exact (recFail_types _ _ t ls ts h ht).elim
        · trivial
      | map k a b =>
        simp only [recognizeReq]
        unfold ResOk
        split
        · rename_i ts ls h
          intro t ht
          unfold recDict at h
          split at h
          · cases h
          · split at h
            · have := recDictPairs_types _ (.map k a b) a b (Admits env a) (Admits env b)
                (fun x ts' ls' h' => ihT x a ts' ls' h') (fun x ts' ls' h' => ihT x b ts' ls' h')
                _ none ts ls (ambOk_none _) h t ht
              rcases this with rfl | ⟨u, hu, rfl⟩ | ⟨u, hu, rfl⟩
              · exact Admits.self _ (by intro c; simp) (by intro ms; simp)
              · exact Admits.mapKey hu
              · exact Admits.mapVal hu
            · exact (recFail_types _ _ t ls ts h ht).elim
        · trivial
      | cls c =>
        simp only [recognizeReq]
        split
        · have := ih n (.classes c true)
          unfold ResOk at this ⊢
          split
          · rename_i ts ls h
            rw [h] at this
            intro t ht
            obtain ⟨d, rfl, hd, hc⟩ := this t ht
            exact Admits.cls hd hc
          · trivial
        · simp [ResOk]
      | any =>
        simp only [recognizeReq, ResOk, recOk]
        intro t ht
        simp only [List.mem_cons, List.not_mem_nil, or_false] at ht
        subst ht
        exact Admits.self _ (by intro c; simp) (by intro ms; simp)
      | str | int | float | bool | boolFix | null | date | path =>
        simp only [recognizeReq]
        unfold ResOk
        split
        · rename_i ts ls h
          intro t ht
          have := recScalar_types _ _ _ ts ls t h ht
          subst this
          exact Admits.self _ (by intro c; simp) (by intro ms; simp)
        · trivial
    | classes c top =>
      simp only [recognizeReq]
      split
      · simp [ResOk]
      · rename_i d hfind
        have hname := find_name env c d hfind
        split
        · simp [ResOk]
        · rename_i acc hacc
          have hsubs : ∀ t ∈ acc.types, ∃ e, t = .cls e ∧ Descends env c e ∧ Concrete env e := by
            refine recSubclasses_types _ _ (env.directSubclasses c) ⟨[], []⟩ acc ?_ (by intro t ht; cases ht) hacc
            intro s hs ts ls h t ht
            have := ih n (.classes s.name false)
            rw [h] at this
            obtain ⟨e, rfl, he, hc⟩ := this t ht
            exact ⟨e, rfl, Descends.step s hs he, hc⟩
          unfold ResOk
          split
          · rename_i ts ls h
            intro t ht
            split at h
            · split at h
              · have := finishClasses_types env n top [] _ ts ls h t ht
                cases this
              · rename_i hna
                split at h
                · cases h
                · rename_i ts' ls' huc
                  have hin := finishClasses_types env n top ts' _ ts ls h t ht
                  have := recUserClass_types env _ n d ts' ls' huc t hin
                  rw [hname] at this
                  exact ⟨c, this, Descends.refl c, d, hfind, by simpa using hna⟩
            · exact hsubs t (finishClasses_types env n top acc.types _ ts ls h t ht)
          · trivial

/-- **Recognition is sound.**  Every type recognised for a node is admitted by the expected type. -/
theorem recognize_admits (env : Env) (fuel : Nat) (n : Node) (T : Ty) (ts : List Ty) (ls : List Leaf)
    (h : recognize env fuel n T = .ok (ts, ls)) : ∀ t ∈ ts, Admits env T t := by
  have := recognizeReq_ok env fuel n (.ty T)
  unfold recognize at h
  rw [h] at this
  exact this

end YatimlModel
