import YatimlModel.Model.Construct
/-!
Every call of a user constructor that a construction makes — whether the construction as a whole
succeeds or fails later — passes keyword arguments that went through `checkAttributes` (all required
parameters present, every present parameter of its declared type, unknown keys only with
`_yatiml_extra`), or is the one-argument call of a string-like class.  Proved for every node (any tags,
any nesting), every class model and every fuel.
-/
namespace YatimlModel

/-- the provenance of one user-constructor call -/
def CallOk (env : Env) (tbl : List Entry) (c : Call) : Prop :=
  (∃ (d : ClassDef) (n : Node) (ps : List (Node × Node)) (mapping : List (PyVal × PyVal)),
      c = ⟨d.name, kwargsOf d mapping⟩ ∧ checkAttributes env d n ps mapping = none) ∨
  (∃ (d : ClassDef) (v : String), c = ⟨d.name, [(.scalar (.str ""), .scalar (.str v))]⟩ ∧
      d.initRaises [("", .str v)] = false)

def CallsOk (env : Env) (tbl : List Entry) (cs : List Call) : Prop := ∀ c ∈ cs, CallOk env tbl c

def ResCallsOk (env : Env) (tbl : List Entry) (r : ConsRes) : Prop :=
  match r with
  | .ok o => CallsOk env tbl o.calls
  | .error (_, cs) => CallsOk env tbl cs

theorem callsOk_nil (env : Env) (tbl : List Entry) : CallsOk env tbl [] := by intro c h; cases h

theorem callsOk_append (env : Env) (tbl : List Entry) (a b : List Call) (ha : CallsOk env tbl a)
    (hb : CallsOk env tbl b) : CallsOk env tbl (a ++ b) := by
  intro c hc
  rcases List.mem_append.mp hc with h | h
  · exact ha c h
  · exact hb c h

/-- the calls recorded in a result of `consItems` / `consPairs` -/
def outCalls {α : Type} (r : Except (LoadErr × List Call) (α × List Call)) : List Call :=
  match r with
  | .ok (_, cs) => cs
  | .error (_, cs) => cs

theorem consItems_callsOk (env : Env) (tbl : List Entry) (cons : Node → ConsRes)
    (hcons : ∀ x, ResCallsOk env tbl (cons x)) :
    ∀ (xs : List Node) (c0 : List Call), CallsOk env tbl c0 →
      CallsOk env tbl (outCalls (consItems cons xs c0)) := by
  intro xs
  induction xs with
  | nil => intro c0 h0; simpa [consItems, outCalls] using h0
  | cons x xs ih =>
    intro c0 h0
    have hx := hcons x
    unfold consItems
    cases hc : cons x with
    | error err =>
      obtain ⟨e, cs⟩ := err
      rw [hc] at hx
      simp only [outCalls]
      exact callsOk_append env tbl _ _ h0 hx
    | ok o =>
      rw [hc] at hx
      have := ih (c0 ++ o.calls) (callsOk_append env tbl _ _ h0 hx)
      dsimp only
      cases hr : consItems cons xs (c0 ++ o.calls) with
      | error err =>
        rw [hr] at this
        obtain ⟨e, cs⟩ := err
        simpa [outCalls] using this
      | ok res =>
        rw [hr] at this
        obtain ⟨ys, cs⟩ := res
        simpa [outCalls] using this

theorem consPairs_callsOk (env : Env) (tbl : List Entry) (cons : Node → ConsRes)
    (hcons : ∀ x, ResCallsOk env tbl (cons x)) :
    ∀ (ps : List (Node × Node)) (acc : List (PyVal × PyVal)) (c0 : List Call), CallsOk env tbl c0 →
      CallsOk env tbl (outCalls (consPairs cons ps acc c0)) := by
  intro ps
  induction ps with
  | nil => intro acc c0 h0; simpa [consPairs, outCalls] using h0
  | cons p ps ih =>
    intro acc c0 h0
    obtain ⟨k, v⟩ := p
    have hk := hcons k
    have hv := hcons v
    unfold consPairs
    cases hck : cons k with
    | error err =>
      obtain ⟨e, cs⟩ := err
      rw [hck] at hk
      simp only [outCalls]
      exact callsOk_append env tbl _ _ h0 hk
    | ok ko =>
      rw [hck] at hk
      dsimp only
      split
      · simp only [outCalls]
        exact callsOk_append env tbl _ _ h0 hk
      · cases hcv : cons v with
        | error err =>
          obtain ⟨e, cs⟩ := err
          rw [hcv] at hv
          simp only [outCalls]
          exact callsOk_append env tbl _ _ (callsOk_append env tbl _ _ h0 hk) hv
        | ok vo =>
          rw [hcv] at hv
          exact ih _ _ (callsOk_append env tbl _ _ (callsOk_append env tbl _ _ h0 hk) hv)

/-- **Every constructor call is type-checked.** -/
theorem construct_callsOk (env : Env) (tbl : List Entry) :
    ∀ (fuel : Nat) (n : Node), ResCallsOk env tbl (construct env tbl fuel n) := by
  intro fuel
  induction fuel with
  | zero => intro n; simp [construct, ResCallsOk, callsOk_nil]
  | succ fuel ih =>
    intro n
    unfold construct
    dsimp only
    split
    · rename_i d hd
      split
      · -- enum
        split
        · split
          · exact callsOk_nil env tbl
          · exact callsOk_nil env tbl
        · exact callsOk_nil env tbl
      · -- string-like
        split
        · split
          · exact callsOk_nil env tbl
          · rename_i hir
            intro c hc
            simp only [List.mem_singleton] at hc
            subst hc
            exact Or.inr ⟨d, _, rfl, by simpa using hir⟩
        · exact callsOk_nil env tbl
      · -- plain class
        split
        · split
          · exact callsOk_nil env tbl
          · split
            · exact callsOk_nil env tbl
            · rename_i flat hflat
              have hp := consPairs_callsOk env tbl (construct env tbl fuel) ih flat [] [] (callsOk_nil env tbl)
              split
              · rename_i err herr
                rw [herr] at hp
                obtain ⟨e, cs⟩ := err
                exact hp
              · rename_i mapping calls hok
                rw [hok] at hp
                simp only [outCalls] at hp
                split
                · exact hp
                · rename_i hchk
                  split
                  · exact hp
                  · split
                    · apply callsOk_append env tbl _ _ hp
                      intro c hc
                      simp only [List.mem_singleton] at hc
                      subst hc
                      exact Or.inl ⟨d, _, _, mapping, rfl, hchk⟩
                    · apply callsOk_append env tbl _ _ hp
                      intro c hc
                      simp only [List.mem_singleton] at hc
                      subst hc
                      exact Or.inl ⟨d, _, _, mapping, rfl, hchk⟩
        · exact callsOk_nil env tbl
    · split
      · split <;> exact callsOk_nil env tbl
      · split
        · split <;> exact callsOk_nil env tbl
        · split
          · rename_i t xs m _ _ _
            have := consItems_callsOk env tbl (construct env tbl fuel) ih xs.toList [] (callsOk_nil env tbl)
            split
            · rename_i err herr
              rw [herr] at this
              exact this
            · rename_i ys cs hok
              rw [hok] at this
              exact this
          · exact callsOk_nil env tbl
        · split
          · split
            · exact callsOk_nil env tbl
            · rename_i flat _
              have := consPairs_callsOk env tbl (construct env tbl fuel) ih flat [] [] (callsOk_nil env tbl)
              split
              · rename_i err herr
                rw [herr] at this
                exact this
              · rename_i kvs cs hok
                rw [hok] at this
                exact this
          · exact callsOk_nil env tbl

end YatimlModel
