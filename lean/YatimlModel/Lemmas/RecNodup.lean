import YatimlModel.Model.Recognize
import YatimlModel.Lemmas.RecSound
/-!
Every list of types the recogniser returns is duplicate-free (it models a Python `set`).
-/
namespace YatimlModel

def NdOk (r : RecRes) : Prop :=
  match r with
  | .ok (ts, _) => ts.Nodup
  | .error _ => True

theorem insertT_nodup (t : Ty) (s : List Ty) (h : s.Nodup) : (insertT t s).Nodup := by
  unfold insertT
  split
  · exact h
  · rename_i hc
    rw [List.nodup_append]
    refine ⟨h, by simp, ?_⟩
    intro a ha b hb
    simp only [List.mem_singleton] at hb
    subst hb
    intro heq
    subst heq
    exact hc (by simpa using ha)

theorem unionT_nodup (a b : List Ty) (h : a.Nodup) : (unionT a b).Nodup := by
  unfold unionT
  induction b generalizing a with
  | nil => simpa using h
  | cons t rest ih => simp only [List.foldl_cons]; exact ih _ (insertT_nodup t a h)

theorem dropBoolFix_nodup (ts : List Ty) (h : ts.Nodup) : (dropBoolFix ts).Nodup := by
  unfold dropBoolFix
  split
  · exact h.sublist List.filter_sublist
  · exact h

theorem map_nodup (ts : List Ty) (f : Ty → Ty) (hf : ∀ a b, f a = f b → a = b) (h : ts.Nodup) :
    (ts.map f).Nodup := by
  unfold List.Nodup at *
  rw [List.pairwise_map]
  exact h.imp (fun hne heq => hne (hf _ _ heq))

theorem ndOk_recOk (T : Ty) : NdOk (recOk T) := by simp [NdOk, recOk]
theorem ndOk_recFail (m : List Mark) (k : List String) : NdOk (recFail m k) := by simp [NdOk, recFail]

def AmbNd (amb : Option RecOut) : Prop := ∀ r, amb = some r → r.1.Nodup

theorem ambNd_none : AmbNd none := by intro r h; cases h

theorem noteAmb_nd (amb : Option RecOut) (ha : AmbNd amb) (ts : List Ty) (wrap : Ty → Ty) (ls : List Leaf)
    (hf : ∀ a b, wrap a = wrap b → a = b) (h : ts.Nodup) : AmbNd (noteAmb amb ts wrap ls) := by
  unfold noteAmb
  split
  · exact ha
  · split
    · intro r hr
      simp only [Option.some.injEq] at hr
      subst hr
      exact map_nodup ts wrap hf h
    · exact ambNd_none

theorem recDone_nd (T : Ty) (amb : Option RecOut) (ha : AmbNd amb) : NdOk (recDone T amb) := by
  unfold recDone
  split
  · rename_i r; exact ha r rfl
  · exact ndOk_recOk T

theorem recListItems_nd (rec : Node → Ty → RecRes) (T itemTy : Ty) (hrec : ∀ x, NdOk (rec x itemTy)) :
    ∀ (items : List Node) (amb : Option RecOut), AmbNd amb → NdOk (recListItems rec T itemTy amb items) := by
  intro items
  induction items with
  | nil => intro amb ha; simp only [recListItems]; exact recDone_nd T amb ha
  | cons x xs ih =>
    intro amb ha
    unfold recListItems
    have hx := hrec x
    split
    · trivial
    · rename_i ts ls hr
      rw [hr] at hx
      split
      · simp [NdOk]
      · exact ih _ (noteAmb_nd amb ha ts _ ls (by intro a b h; cases h; rfl) hx)

theorem recDictPairs_nd (rec : Node → Ty → RecRes) (T K V : Ty) (hk : ∀ x, NdOk (rec x K)) (hv : ∀ x, NdOk (rec x V)) :
    ∀ (ps : List (Node × Node)) (amb : Option RecOut), AmbNd amb → NdOk (recDictPairs rec T K V amb ps) := by
  intro ps
  induction ps with
  | nil => intro amb ha; simp only [recDictPairs]; exact recDone_nd T amb ha
  | cons p ps ih =>
    intro amb ha
    obtain ⟨k, v⟩ := p
    unfold recDictPairs
    have h1 := hk k
    have h2 := hv v
    split
    · trivial
    · rename_i kts kl hr
      rw [hr] at h1
      split
      · simp [NdOk]
      · split
        · trivial
        · rename_i vts vl hr2
          rw [hr2] at h2
          split
          · simp [NdOk]
          · apply ih
            apply noteAmb_nd
            · exact noteAmb_nd amb ha kts _ kl (by intro a b h; cases h; rfl) h1
            · intro a b h; cases h; rfl
            · exact h2

theorem recUnionMembers_nd (rec : Node → Ty → RecRes) (n : Node) :
    ∀ (ms : List Ty) (acc acc' : UnionAcc), acc.types.Nodup →
      recUnionMembers rec n ms acc = .ok acc' → acc'.types.Nodup := by
  intro ms
  induction ms with
  | nil =>
    intro acc acc' hc h
    simp only [recUnionMembers, Except.ok.injEq] at h
    subst h; exact hc
  | cons m rest ih =>
    intro acc acc' hc h
    unfold recUnionMembers at h
    split at h
    · cases h
    · exact ih _ acc' (unionT_nodup _ _ hc) h

theorem recUnion_nd (rec : Node → Ty → RecRes) (n : Node) (ms : List Ty) : NdOk (recUnion rec n ms) := by
  unfold recUnion
  split
  · trivial
  · rename_i acc hacc
    have := recUnionMembers_nd rec n ms ⟨[], []⟩ acc (by simp) hacc
    dsimp only
    split <;> exact dropBoolFix_nodup _ this

theorem recUserClass_nd (env : Env) (rec : Node → Ty → RecRes) (n : Node) (d : ClassDef) :
    NdOk (recUserClass env rec n d) := by
  unfold recUserClass
  split
  · split
    · trivial
    · exact ndOk_recOk _
    · exact ndOk_recFail _ _
  · split
    · split
      · split
        · exact ndOk_recOk _
        · exact ndOk_recFail _ _
      · exact ndOk_recFail _ _
    · split
      · split
        · exact ndOk_recOk _
        · exact ndOk_recFail _ _
      · exact ndOk_recFail _ _
    · split
      · split
        · trivial
        · exact ndOk_recOk _
        · simp [NdOk]
      · exact ndOk_recFail _ _

theorem recSubclasses_nd (recC : ClassDef → RecRes) :
    ∀ (ds : List ClassDef) (acc acc' : ClsAcc), acc.types.Nodup →
      recSubclasses recC ds acc = .ok acc' → acc'.types.Nodup := by
  intro ds
  induction ds with
  | nil =>
    intro acc acc' hc h
    simp only [recSubclasses, Except.ok.injEq] at h
    subst h; exact hc
  | cons d rest ih =>
    intro acc acc' hc h
    unfold recSubclasses at h
    split at h
    · cases h
    · exact ih _ acc' (unionT_nodup _ _ hc) h

theorem finishClasses_nd (env : Env) (n : Node) (top : Bool) (ts : List Ty) (causes : List (List Leaf))
    (h : ts.Nodup) : NdOk (finishClasses env n top ts causes) := by
  unfold finishClasses
  split
  · simp [NdOk]
  · split
    · split
      · split
        · exact ndOk_recOk _
        · exact h
      · exact h
    · split
      · split
        · split
          · exact h
          · exact ndOk_recFail _ _
        · exact ndOk_recFail _ _
      · exact h

theorem recScalar_nd (n : Node) (T : Ty) (tag : String) : NdOk (recScalar n T tag) := by
  unfold recScalar
  split
  · split
    · exact ndOk_recOk _
    · exact ndOk_recFail _ _
  · exact ndOk_recFail _ _

/-- **Results are sets.** -/
theorem recognizeReq_nodup (env : Env) : ∀ (fuel : Nat) (n : Node) (q : Req), NdOk (recognizeReq env fuel n q) := by
  intro fuel
  induction fuel with
  | zero => intro n q; simp [recognizeReq, NdOk]
  | succ fuel ih =>
    intro n q
    have ihT : ∀ x U, NdOk (recognizeReq env fuel x (.ty U)) := fun x U => ih x (.ty U)
    cases q with
    | ty T =>
      cases T with
      | union ms => simp only [recognizeReq]; exact recUnion_nd _ n _
      | seq k item =>
        simp only [recognizeReq, recList]
        split
        · exact recListItems_nd _ _ _ (fun x => ihT x item) _ _ ambNd_none
        · exact ndOk_recFail _ _
      | map k a b =>
        simp only [recognizeReq, recDict]
        split
        · trivial
        · split
          · exact recDictPairs_nd _ _ _ _ (fun x => ihT x a) (fun x => ihT x b) _ _ ambNd_none
          · exact ndOk_recFail _ _
      | cls c =>
        simp only [recognizeReq]
        split
        · exact ih n (.classes c true)
        · trivial
      | any => simp only [recognizeReq]; exact ndOk_recOk _
      | str => simp only [recognizeReq]; exact recScalar_nd _ _ _
      | int => simp only [recognizeReq]; exact recScalar_nd _ _ _
      | float => simp only [recognizeReq]; exact recScalar_nd _ _ _
      | bool => simp only [recognizeReq]; exact recScalar_nd _ _ _
      | boolFix => simp only [recognizeReq]; exact recScalar_nd _ _ _
      | null => simp only [recognizeReq]; exact recScalar_nd _ _ _
      | date => simp only [recognizeReq]; exact recScalar_nd _ _ _
      | path => simp only [recognizeReq]; exact recScalar_nd _ _ _
    | classes c top =>
      simp only [recognizeReq]
      split
      · trivial
      · rename_i d hf
        split
        · trivial
        · rename_i acc hacc
          have hnd := recSubclasses_nd _ (env.directSubclasses c) ⟨[], []⟩ acc (by simp) hacc
          split
          · split
            · exact finishClasses_nd env n top [] acc.causes (by simp)
            · have huc := recUserClass_nd env (fun x U => recognizeReq env fuel x (.ty U)) n d
              split
              · trivial
              · rename_i ts ls hr
                rw [hr] at huc
                exact finishClasses_nd env n top ts _ huc
          · exact finishClasses_nd env n top acc.types acc.causes hnd

end YatimlModel
