import YatimlModel.Lemmas.RegexBeq
/-!
Denotational semantics of the regular expressions and correctness of the derivative matcher:
`rmatch r s = true ↔ Lang r s`.  With it the C09 statements are about the *language* the YAML 1.2
core-schema expressions denote, not about a matcher.
-/
namespace YatimlModel
open Re

/-- the language of a regular expression -/
inductive Lang : Re → List Nat → Prop
  | eps : Lang .eps []
  | set {cs : CSet} {c : Nat} : cs.mem c = true → Lang (.set cs) [c]
  | cat {a b : Re} {s t : List Nat} : Lang a s → Lang b t → Lang (.cat a b) (s ++ t)
  | altL {a b : Re} {s : List Nat} : Lang a s → Lang (.alt a b) s
  | altR {a b : Re} {s : List Nat} : Lang b s → Lang (.alt a b) s
  | starNil {a : Re} : Lang (.star a) []
  | starCons {a : Re} {s t : List Nat} : Lang a s → Lang (.star a) t → Lang (.star a) (s ++ t)

theorem lang_empty (s : List Nat) : ¬ Lang .empty s := by intro h; cases h

theorem lang_eps (s : List Nat) : Lang .eps s ↔ s = [] := by
  constructor
  · intro h; cases h; rfl
  · rintro rfl; exact Lang.eps

theorem lang_alt (a b : Re) (s : List Nat) : Lang (.alt a b) s ↔ Lang a s ∨ Lang b s := by
  constructor
  · intro h; cases h with
    | altL h => exact Or.inl h
    | altR h => exact Or.inr h
  · rintro (h | h)
    · exact Lang.altL h
    · exact Lang.altR h

theorem lang_cat (a b : Re) (u : List Nat) :
    Lang (.cat a b) u ↔ ∃ s t, u = s ++ t ∧ Lang a s ∧ Lang b t := by
  constructor
  · intro h; cases h with
    | cat h1 h2 => exact ⟨_, _, rfl, h1, h2⟩
  · rintro ⟨s, t, rfl, h1, h2⟩; exact Lang.cat h1 h2

/-- nullable = accepts the empty string -/
theorem nullable_iff (r : Re) : nullable r = true ↔ Lang r [] := by
  induction r with
  | empty => simp [nullable]; exact lang_empty []
  | eps => simp [nullable]; exact Lang.eps
  | set cs => simp [nullable]; intro h; cases h
  | cat a b iha ihb =>
    simp only [nullable, Bool.and_eq_true, iha, ihb, lang_cat]
    constructor
    · rintro ⟨h1, h2⟩; exact ⟨[], [], rfl, h1, h2⟩
    · rintro ⟨s, t, hst, h1, h2⟩
      have hs : s = [] := by
        cases s with
        | nil => rfl
        | cons x xs => simp at hst
      subst hs
      have ht : t = [] := by simpa using hst.symm
      subst ht
      exact ⟨h1, h2⟩
  | alt a b iha ihb => simp only [nullable, Bool.or_eq_true, iha, ihb, lang_alt]
  | star a _ => simp [nullable]; exact Lang.starNil

/-! ### the smart constructors preserve the language -/

theorem lang_mkCat (a b : Re) (s : List Nat) : Lang (mkCat a b) s ↔ Lang (.cat a b) s := by
  unfold mkCat
  split
  · -- empty, _
    constructor
    · intro h; exact absurd h (lang_empty s)
    · intro h; rw [lang_cat] at h; obtain ⟨_, _, _, h1, _⟩ := h; exact absurd h1 (lang_empty _)
  · constructor
    · intro h; exact absurd h (lang_empty s)
    · intro h; rw [lang_cat] at h; obtain ⟨_, _, _, _, h2⟩ := h; exact absurd h2 (lang_empty _)
  · -- eps, b
    rw [lang_cat]
    constructor
    · intro h; exact ⟨[], s, rfl, Lang.eps, h⟩
    · rintro ⟨u, t, rfl, h1, h2⟩
      rw [(lang_eps u).mp h1]; simpa using h2
  · rw [lang_cat]
    constructor
    · intro h; exact ⟨s, [], by simp, h, Lang.eps⟩
    · rintro ⟨u, t, rfl, h1, h2⟩
      rw [(lang_eps t).mp h2]; simpa using h1
  · exact Iff.rfl

theorem altMem_lang (x : Re) : ∀ (y : Re) (s : List Nat), altMem x y = true → Lang x s → Lang y s := by
  intro y
  induction y with
  | alt a b _ ihb =>
    intro s h hx
    simp only [altMem, Bool.or_eq_true] at h
    rcases h with h | h
    · have : x = a := eq_of_beq h
      subst this; exact Lang.altL hx
    · exact Lang.altR (ihb s h hx)
  | empty => intro s h hx; simp only [altMem] at h; rw [← eq_of_beq h]; exact hx
  | eps => intro s h hx; simp only [altMem] at h; rw [← eq_of_beq h]; exact hx
  | set cs => intro s h hx; simp only [altMem] at h; rw [← eq_of_beq h]; exact hx
  | cat a b _ _ => intro s h hx; simp only [altMem] at h; rw [← eq_of_beq h]; exact hx
  | star a _ => intro s h hx; simp only [altMem] at h; rw [← eq_of_beq h]; exact hx

theorem lang_mkAlt1 (a b : Re) (s : List Nat) : Lang (mkAlt1 a b) s ↔ Lang (.alt a b) s := by
  unfold mkAlt1
  split
  · rw [lang_alt]
    constructor
    · intro h; exact Or.inr h
    · rintro (h | h)
      · exact absurd h (lang_empty s)
      · exact h
  · rw [lang_alt]
    constructor
    · intro h; exact Or.inl h
    · rintro (h | h)
      · exact h
      · exact absurd h (lang_empty s)
  · split
    · rename_i hm
      rw [lang_alt]
      constructor
      · intro h; exact Or.inr h
      · rintro (h | h)
        · exact altMem_lang _ _ s hm h
        · exact h
    · exact Iff.rfl

theorem lang_mkAlt : ∀ (a b : Re) (s : List Nat), Lang (mkAlt a b) s ↔ Lang (.alt a b) s
  | .alt a1 a2, b, s => by
    simp only [mkAlt]
    rw [lang_mkAlt1, lang_alt, lang_mkAlt a2 b s, lang_alt, lang_alt, lang_alt]
    constructor
    · rintro (h | h | h)
      · exact Or.inl (Or.inl h)
      · exact Or.inl (Or.inr h)
      · exact Or.inr h
    · rintro ((h | h) | h)
      · exact Or.inl h
      · exact Or.inr (Or.inl h)
      · exact Or.inr (Or.inr h)
  | .empty, b, s => by simp only [mkAlt]; exact lang_mkAlt1 _ _ _
  | .eps, b, s => by simp only [mkAlt]; exact lang_mkAlt1 _ _ _
  | .set _, b, s => by simp only [mkAlt]; exact lang_mkAlt1 _ _ _
  | .cat _ _, b, s => by simp only [mkAlt]; exact lang_mkAlt1 _ _ _
  | .star _, b, s => by simp only [mkAlt]; exact lang_mkAlt1 _ _ _

/-! ### derivatives -/

/-- a non-empty word of `a*` starts with a non-empty word of `a` -/
theorem lang_star_cons (a : Re) (c : Nat) (s : List Nat) :
    Lang (.star a) (c :: s) ↔ ∃ s1 s2, s = s1 ++ s2 ∧ Lang a (c :: s1) ∧ Lang (.star a) s2 := by
  constructor
  · intro h
    generalize hw : c :: s = w at h
    generalize hr : Re.star a = r at h
    induction h with
    | eps => cases hr
    | set _ => cases hr
    | cat _ _ _ _ => cases hr
    | altL _ _ => cases hr
    | altR _ _ => cases hr
    | starNil => cases hw
    | @starCons a' u t h1 h2 _ ih2 =>
      cases hr
      cases u with
      | nil => exact ih2 hw rfl
      | cons d u' =>
        simp only [List.cons_append, List.cons.injEq] at hw
        obtain ⟨rfl, rfl⟩ := hw
        exact ⟨u', t, rfl, h1, h2⟩
  · rintro ⟨s1, s2, rfl, h1, h2⟩
    have := Lang.starCons h1 h2
    simpa using this

theorem lang_deriv (c : Nat) : ∀ (r : Re) (s : List Nat), Lang (deriv c r) s ↔ Lang r (c :: s) := by
  intro r
  induction r with
  | empty => intro s; simp only [deriv]; exact ⟨fun h => absurd h (lang_empty s), fun h => absurd h (lang_empty _)⟩
  | eps =>
    intro s
    simp only [deriv]
    constructor
    · intro h; exact absurd h (lang_empty s)
    · intro h; cases h
  | set cs =>
    intro s
    simp only [deriv]
    split
    · rename_i hm
      rw [lang_eps]
      constructor
      · rintro rfl; exact Lang.set hm
      · intro h; cases h; rfl
    · rename_i hm
      constructor
      · intro h; exact absurd h (lang_empty s)
      · intro h; cases h with
        | set h' => exact absurd h' hm
  | cat a b iha ihb =>
    intro s
    simp only [deriv]
    have hcat : Lang (mkCat (deriv c a) b) s ↔ ∃ s1 s2, s = s1 ++ s2 ∧ Lang a (c :: s1) ∧ Lang b s2 := by
      rw [lang_mkCat, lang_cat]
      constructor
      · rintro ⟨u, t, rfl, h1, h2⟩; exact ⟨u, t, rfl, (iha u).mp h1, h2⟩
      · rintro ⟨u, t, rfl, h1, h2⟩; exact ⟨u, t, rfl, (iha u).mpr h1, h2⟩
    have hsplit : Lang (.cat a b) (c :: s) ↔
        (∃ s1 s2, s = s1 ++ s2 ∧ Lang a (c :: s1) ∧ Lang b s2) ∨ (Lang a [] ∧ Lang b (c :: s)) := by
      rw [lang_cat]
      constructor
      · rintro ⟨u, t, hut, h1, h2⟩
        cases u with
        | nil => simp only [List.nil_append] at hut; subst hut; exact Or.inr ⟨h1, h2⟩
        | cons d u' =>
          simp only [List.cons_append, List.cons.injEq] at hut
          obtain ⟨rfl, rfl⟩ := hut
          exact Or.inl ⟨u', t, rfl, h1, h2⟩
      · rintro (⟨u, t, rfl, h1, h2⟩ | ⟨h1, h2⟩)
        · exact ⟨c :: u, t, by simp, h1, h2⟩
        · exact ⟨[], c :: s, by simp, h1, h2⟩
    split
    · rename_i hn
      rw [lang_mkAlt, lang_alt, hcat, ihb s, hsplit]
      have hnull := (nullable_iff a).mp hn
      constructor
      · rintro (h | h)
        · exact Or.inl h
        · exact Or.inr ⟨hnull, h⟩
      · rintro (h | ⟨_, h⟩)
        · exact Or.inl h
        · exact Or.inr h
    · rename_i hn
      rw [hcat, hsplit]
      constructor
      · intro h; exact Or.inl h
      · rintro (h | ⟨h, _⟩)
        · exact h
        · exact absurd ((nullable_iff a).mpr h) hn
  | alt a b iha ihb =>
    intro s
    simp only [deriv]
    rw [lang_mkAlt, lang_alt, lang_alt, iha s, ihb s]
  | star a iha =>
    intro s
    simp only [deriv]
    rw [lang_mkCat, lang_cat, lang_star_cons]
    constructor
    · rintro ⟨u, t, rfl, h1, h2⟩; exact ⟨u, t, rfl, (iha u).mp h1, h2⟩
    · rintro ⟨u, t, rfl, h1, h2⟩; exact ⟨u, t, rfl, (iha u).mpr h1, h2⟩

/-- **The derivative matcher decides the language.** -/
theorem rmatch_iff_lang (r : Re) (s : List Nat) : rmatch r s = true ↔ Lang r s := by
  induction s generalizing r with
  | nil => simp only [rmatch, derivs, List.foldl_nil]; exact nullable_iff r
  | cons c rest ih =>
    have : rmatch r (c :: rest) = rmatch (deriv c r) rest := by simp [rmatch, derivs]
    rw [this, ih (deriv c r), lang_deriv]

end YatimlModel
