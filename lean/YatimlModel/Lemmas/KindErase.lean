import YatimlModel.Lemmas.RecComplete
/-!
Interchanging `List` / `Sequence` / `MutableSequence` and `Dict` / `Mapping` / `MutableMapping` in
annotations (C13): `eraseKinds` forgets which of the three spellings a container annotation uses, in a
type and — `eraseEnv` — in every constructor parameter of a class model.  Two class models / types that
differ in those spellings only have the same erasure.  The documented language of a type
(`Spec.matchesReq`) does not depend on the spelling (`matches_erase`).
-/
namespace YatimlModel
open Spec NodeOps

mutual
def eraseKinds : Ty → Ty
  | .str => .str | .int => .int | .float => .float | .bool => .bool | .boolFix => .boolFix
  | .null => .null | .date => .date | .path => .path | .any => .any
  | .seq _ item => .seq .list (eraseKinds item)
  | .map _ k v => .map .dict (eraseKinds k) (eraseKinds v)
  | .union ms => .union (eraseKindsL ms)
  | .cls c => .cls c
def eraseKindsL : Tys → Tys
  | .nil => .nil
  | .cons t ts => .cons (eraseKinds t) (eraseKindsL ts)
end

def eraseParam (p : Param) : Param := { p with ty := eraseKinds p.ty }
def eraseClass (d : ClassDef) : ClassDef :=
  { d with params := d.params.map eraseParam, extraTy := d.extraTy.map eraseKinds }
def eraseEnv (env : Env) : Env := { env with registered := env.registered.map eraseClass }

def eraseReq : Req → Req
  | .ty T => .ty (eraseKinds T)
  | .classes c top => .classes c top

theorem toList_eraseL : ∀ (ms : Tys), (eraseKindsL ms).toList = ms.toList.map eraseKinds
  | .nil => rfl
  | .cons t ts => by simp [eraseKindsL, Tys.toList, toList_eraseL ts]

theorem find_erase (env : Env) (c : String) : (eraseEnv env).find c = (env.find c).map eraseClass := by
  unfold Env.find eraseEnv
  simp only [List.find?_map]
  rfl

theorem isRegistered_erase (env : Env) (c : String) : (eraseEnv env).isRegistered c = env.isRegistered c := by
  unfold Env.isRegistered eraseEnv
  simp only [List.any_map]
  rfl

theorem directSubclasses_erase (env : Env) (c : String) :
    (eraseEnv env).directSubclasses c = (env.directSubclasses c).map eraseClass := by
  unfold Env.directSubclasses eraseEnv
  simp only [List.filter_map]
  rfl

theorem keyTypeOk_erase (env : Env) (k : Ty) : keyTypeOk (eraseEnv env) (eraseKinds k) = keyTypeOk env k := by
  cases k <;> simp only [eraseKinds, keyTypeOk]
  rename_i c
  rw [find_erase]
  cases env.find c <;> rfl

theorem attrMatches_erase (m m' : Node → Ty → Bool) (hm : ∀ x U, m' x (eraseKinds U) = m x U)
    (ps : List (Node × Node)) (p : Param) : attrMatches m' ps (eraseParam p) = attrMatches m ps p := by
  unfold attrMatches valueMatches eraseParam
  simp only
  split
  · split <;> simp [hm]
  · split
    · split <;> simp [hm]
    · rfl

theorem classMatches_erase (m m' : Node → Ty → Bool) (hm : ∀ x U, m' x (eraseKinds U) = m x U)
    (d : ClassDef) (n : Node) : classMatches m' (eraseClass d) n = classMatches m d n := by
  unfold classMatches eraseClass
  simp only
  cases d.kind with
  | enum _ => rfl
  | stringLike => rfl
  | plain =>
    simp only
    cases n with
    | scalar _ _ _ => rfl
    | seq _ _ _ => rfl
    | map t ps mk =>
      simp only [List.all_map]
      congr 1
      funext p
      exact attrMatches_erase m m' hm ps.toList p

/-- **The documented language of a type does not depend on which container spelling the annotations
use**, in the type and in the constructor parameters of the class model. -/
theorem matches_erase (env : Env) : ∀ (fuel : Nat) (n : Node) (q : Req),
    matchesReq (eraseEnv env) fuel n (eraseReq q) = matchesReq env fuel n q := by
  intro fuel
  induction fuel with
  | zero => intro n q; cases q <;> simp [matchesReq, eraseReq]
  | succ fuel ih =>
    intro n q
    have ihT : ∀ x U, matchesReq (eraseEnv env) fuel x (.ty (eraseKinds U)) = matchesReq env fuel x (.ty U) :=
      fun x U => ih x (.ty U)
    have ihC : ∀ x c top, matchesReq (eraseEnv env) fuel x (.classes c top) = matchesReq env fuel x (.classes c top) :=
      fun x c top => ih x (.classes c top)
    cases q with
    | ty T =>
      cases T with
      | union ms =>
        simp only [eraseReq, eraseKinds, matchesReq, toList_eraseL, List.any_map]
        congr 1
        funext m
        exact ihT n m
      | seq k item =>
        simp only [eraseReq, eraseKinds, matchesReq]
        cases n <;> simp only [ihT]
      | map mk k v =>
        simp only [eraseReq, eraseKinds, matchesReq, keyTypeOk_erase]
        cases n <;> simp only [ihT]
      | cls c => simp only [eraseReq, eraseKinds, matchesReq, isRegistered_erase, ihC]
      | _ => simp only [eraseReq, eraseKinds, matchesReq]
    | classes c top =>
      simp only [eraseReq, matchesReq, find_erase]
      cases hf : env.find c with
      | none => rfl
      | some d =>
        simp only [Option.map_some, directSubclasses_erase, List.any_map]
        have h1 : (fun s => matchesReq (eraseEnv env) fuel n (.classes s.name false)) ∘ eraseClass
            = fun s => matchesReq env fuel n (.classes s.name false) := by
          funext s
          exact ihC n s.name false
        rw [h1]
        have h2 := classMatches_erase (fun x U => matchesReq env fuel x (.ty U))
          (fun x U => matchesReq (eraseEnv env) fuel x (.ty U)) ihT d n
        rw [h2]
        rfl

end YatimlModel
