import YatimlModel.Lemmas.RecNodup
import YatimlModel.Lemmas.RecComplete
/-!
Recognition does not depend on the order in which classes were registered, nor on the order of the
members of a Union: the *set* of recognised types is the same, and a fatal outcome stays fatal.
-/
namespace YatimlModel

def SameSet (a b : List Ty) : Prop := ∀ t, t ∈ a ↔ t ∈ b

theorem SameSet.refl (a : List Ty) : SameSet a a := fun _ => Iff.rfl
theorem SameSet.symm {a b : List Ty} (h : SameSet a b) : SameSet b a := fun t => (h t).symm
theorem SameSet.trans {a b c : List Ty} (h1 : SameSet a b) (h2 : SameSet b c) : SameSet a c :=
  fun t => (h1 t).trans (h2 t)

theorem sameSet_nil_iff {a b : List Ty} (h : SameSet a b) : a = [] ↔ b = [] := by
  constructor
  · intro ha
    cases b with
    | nil => rfl
    | cons t _ => have := (h t).mpr List.mem_cons_self; rw [ha] at this; cases this
  · intro hb
    cases a with
    | nil => rfl
    | cons t _ => have := (h t).mp List.mem_cons_self; rw [hb] at this; cases this

theorem sameSet_len {a b : List Ty} (h : SameSet a b) (ha : a.Nodup) (hb : b.Nodup) : a.length = b.length :=
  ((List.perm_ext_iff_of_nodup ha hb).mpr h).length_eq

theorem sameSet_map {a b : List Ty} (h : SameSet a b) (f : Ty → Ty) : SameSet (a.map f) (b.map f) := by
  intro t
  simp only [List.mem_map]
  constructor
  · rintro ⟨u, hu, rfl⟩; exact ⟨u, (h u).mp hu, rfl⟩
  · rintro ⟨u, hu, rfl⟩; exact ⟨u, (h u).mpr hu, rfl⟩

theorem sameSet_unionT {a a' b b' : List Ty} (h1 : SameSet a a') (h2 : SameSet b b') :
    SameSet (unionT a b) (unionT a' b') := by
  intro t
  rw [mem_unionT, mem_unionT, h1 t, h2 t]

theorem sameSet_dropBoolFix {a b : List Ty} (h : SameSet a b) : SameSet (dropBoolFix a) (dropBoolFix b) := by
  intro t
  have hc : ∀ x, a.contains x = b.contains x := by
    intro x
    rw [Bool.eq_iff_iff]
    simp only [List.contains_iff_mem]
    exact h x
  unfold dropBoolFix
  rw [hc, hc]
  split
  · simp only [List.mem_filter]; rw [h t]
  · exact h t

theorem sameSet_contains {a b : List Ty} (h : SameSet a b) (x : Ty) : a.contains x = b.contains x := by
  rw [Bool.eq_iff_iff]
  simp only [List.contains_iff_mem]
  exact h x

/-- the relation between two answers: fatal together, or the same set of types -/
def RRel (r r' : RecRes) : Prop :=
  match r, r' with
  | .ok (ts, _), .ok (ts', _) => SameSet ts ts'
  | .error _, .error _ => True
  | _, _ => False

theorem rrel_cases {r r' : RecRes} (h : RRel r r') :
    (∃ e e', r = .error e ∧ r' = .error e') ∨
    (∃ ts ls ts' ls', r = .ok (ts, ls) ∧ r' = .ok (ts', ls') ∧ SameSet ts ts') := by
  cases r with
  | error e =>
    cases r' with
    | error e' => exact Or.inl ⟨e, e', rfl, rfl⟩
    | ok o => simp [RRel] at h
  | ok o =>
    cases r' with
    | error e' => obtain ⟨ts, ls⟩ := o; simp [RRel] at h
    | ok o' =>
      obtain ⟨ts, ls⟩ := o
      obtain ⟨ts', ls'⟩ := o'
      exact Or.inr ⟨ts, ls, ts', ls', rfl, rfl, h⟩

theorem rrel_err (e e' : Fatal) : RRel (.error e) (.error e') := by simp [RRel]
theorem rrel_ok {ts ts' : List Ty} (ls ls' : List Leaf) (h : SameSet ts ts') : RRel (.ok (ts, ls)) (.ok (ts', ls')) := h
theorem rrel_recOk (T : Ty) : RRel (recOk T) (recOk T) := SameSet.refl _
theorem rrel_recFail (m m' : List Mark) (k k' : List String) : RRel (recFail m k) (recFail m' k') := SameSet.refl _

/-- two call-backs that agree up to `RRel` and return sets -/
structure CB (rec rec' : Node → Ty → RecRes) : Prop where
  rel : ∀ x U, RRel (rec x U) (rec' x U)
  nd : ∀ x U, NdOk (rec x U)
  nd' : ∀ x U, NdOk (rec' x U)

theorem CB.cases {rec rec' : Node → Ty → RecRes} (h : CB rec rec') (x : Node) (U : Ty) :
    (∃ e e', rec x U = .error e ∧ rec' x U = .error e') ∨
    (∃ ts ls ts' ls', rec x U = .ok (ts, ls) ∧ rec' x U = .ok (ts', ls') ∧ SameSet ts ts' ∧
      ts.Nodup ∧ ts'.Nodup) := by
  rcases rrel_cases (h.rel x U) with ⟨e, e', h1, h2⟩ | ⟨ts, ls, ts', ls', h1, h2, hs⟩
  · exact Or.inl ⟨e, e', h1, h2⟩
  · have n1 := h.nd x U
    have n2 := h.nd' x U
    rw [h1] at n1
    rw [h2] at n2
    exact Or.inr ⟨ts, ls, ts', ls', h1, h2, hs, n1, n2⟩

def AmbRel (amb amb' : Option RecOut) : Prop :=
  (amb = none ∧ amb' = none) ∨ (∃ r r', amb = some r ∧ amb' = some r' ∧ SameSet r.1 r'.1)

theorem ambRel_none : AmbRel none none := Or.inl ⟨rfl, rfl⟩

theorem noteAmb_rel (amb amb' : Option RecOut) (ha : AmbRel amb amb') (ts ts' : List Ty) (wrap : Ty → Ty)
    (ls ls' : List Leaf) (hs : SameSet ts ts') (hn : ts.Nodup) (hn' : ts'.Nodup) :
    AmbRel (noteAmb amb ts wrap ls) (noteAmb amb' ts' wrap ls') := by
  rcases ha with ⟨h1, h2⟩ | ⟨r, r', h1, h2, hr⟩
  · subst h1; subst h2
    have hl := sameSet_len hs hn hn'
    simp only [noteAmb]
    rw [hl]
    split
    · exact Or.inr ⟨_, _, rfl, rfl, sameSet_map hs wrap⟩
    · exact ambRel_none
  · subst h1; subst h2
    exact Or.inr ⟨r, r', rfl, rfl, hr⟩

theorem recDone_rel (T : Ty) (amb amb' : Option RecOut) (ha : AmbRel amb amb') :
    RRel (recDone T amb) (recDone T amb') := by
  rcases ha with ⟨h1, h2⟩ | ⟨r, r', h1, h2, hr⟩
  · subst h1; subst h2; exact rrel_recOk T
  · subst h1; subst h2
    obtain ⟨ts, ls⟩ := r
    obtain ⟨ts', ls'⟩ := r'
    exact hr

theorem len0_eq {a b : List Ty} (h : SameSet a b) : (a.length == 0) = (b.length == 0) := by
  rw [Bool.eq_iff_iff, len0_iff, len0_iff]
  exact sameSet_nil_iff h

theorem recListItems_rel (rec rec' : Node → Ty → RecRes) (hcb : CB rec rec') (T itemTy : Ty) :
    ∀ (items : List Node) (amb amb' : Option RecOut), AmbRel amb amb' →
      RRel (recListItems rec T itemTy amb items) (recListItems rec' T itemTy amb' items) := by
  intro items
  induction items with
  | nil => intro amb amb' ha; simp only [recListItems]; exact recDone_rel T amb amb' ha
  | cons x xs ih =>
    intro amb amb' ha
    unfold recListItems
    rcases hcb.cases x itemTy with ⟨e, e', h1, h2⟩ | ⟨ts, ls, ts', ls', h1, h2, hs, n1, n2⟩
    · rw [h1, h2]; exact rrel_err _ _
    · rw [h1, h2]
      dsimp only
      rw [len0_eq hs]
      split
      · exact SameSet.refl _
      · exact ih _ _ (noteAmb_rel amb amb' ha ts ts' _ ls ls' hs n1 n2)

theorem recDictPairs_rel (rec rec' : Node → Ty → RecRes) (hcb : CB rec rec') (T K V : Ty) :
    ∀ (ps : List (Node × Node)) (amb amb' : Option RecOut), AmbRel amb amb' →
      RRel (recDictPairs rec T K V amb ps) (recDictPairs rec' T K V amb' ps) := by
  intro ps
  induction ps with
  | nil => intro amb amb' ha; simp only [recDictPairs]; exact recDone_rel T amb amb' ha
  | cons p ps ih =>
    intro amb amb' ha
    obtain ⟨k, v⟩ := p
    unfold recDictPairs
    rcases hcb.cases k K with ⟨e, e', h1, h2⟩ | ⟨kts, kl, kts', kl', h1, h2, hs, n1, n2⟩
    · rw [h1, h2]; exact rrel_err _ _
    · rw [h1, h2]
      dsimp only
      rw [len0_eq hs]
      split
      · exact SameSet.refl _
      · rcases hcb.cases v V with ⟨e, e', g1, g2⟩ | ⟨vts, vl, vts', vl', g1, g2, gs, m1, m2⟩
        · rw [g1, g2]; exact rrel_err _ _
        · rw [g1, g2]
          dsimp only
          rw [len0_eq gs]
          split
          · exact SameSet.refl _
          · exact ih _ _ (noteAmb_rel _ _ (noteAmb_rel amb amb' ha kts kts' _ kl kl' hs n1 n2) vts vts' _ vl vl' gs m1 m2)

/-! ### folds that collect types: unions and subclasses -/

/-- the relation between two accumulating folds: fatal together, or the same set of types -/
def FRel {α : Type} (types : α → List Ty) (r r' : Except Fatal α) : Prop :=
  match r, r' with
  | .ok a, .ok a' => SameSet (types a) (types a')
  | .error _, .error _ => True
  | _, _ => False

theorem FRel.trans {α : Type} {types : α → List Ty} {a b c : Except Fatal α}
    (h1 : FRel types a b) (h2 : FRel types b c) : FRel types a c := by
  cases a <;> cases b <;> cases c <;> simp_all [FRel]
  exact SameSet.trans h1 h2

theorem RRel.refl (r : RecRes) : RRel r r := by
  cases r with
  | error e => simp [RRel]
  | ok o => obtain ⟨ts, ls⟩ := o; exact SameSet.refl ts

/-- same members, related call-backs, related accumulators -/
theorem recUnionMembers_rel (rec rec' : Node → Ty → RecRes) (n : Node)
    (hrel : ∀ m, RRel (rec n m) (rec' n m)) :
    ∀ (ms : List Ty) (acc acc' : UnionAcc), SameSet acc.types acc'.types →
      FRel UnionAcc.types (recUnionMembers rec n ms acc) (recUnionMembers rec' n ms acc') := by
  intro ms
  induction ms with
  | nil => intro acc acc' h; simpa [recUnionMembers, FRel] using h
  | cons m rest ih =>
    intro acc acc' h
    unfold recUnionMembers
    rcases rrel_cases (hrel m) with ⟨e, e', h1, h2⟩ | ⟨ts, ls, ts', ls', h1, h2, hs⟩
    · rw [h1, h2]; simp [FRel]
    · rw [h1, h2]
      exact ih _ _ (sameSet_unionT h hs)

/-- permuted members, same call-back -/
theorem recUnionMembers_perm (rec : Node → Ty → RecRes) (n : Node) :
    ∀ (ms ms' : List Ty), ms.Perm ms' → ∀ (acc acc' : UnionAcc), SameSet acc.types acc'.types →
      FRel UnionAcc.types (recUnionMembers rec n ms acc) (recUnionMembers rec n ms' acc') := by
  intro ms ms' hp
  induction hp with
  | nil => intro acc acc' h; simpa [recUnionMembers, FRel] using h
  | cons x _ ih =>
    intro acc acc' h
    unfold recUnionMembers
    cases hx : rec n x with
    | error e => simp [FRel]
    | ok o =>
      obtain ⟨ts, ls⟩ := o
      exact ih _ _ (sameSet_unionT h (SameSet.refl ts))
  | swap x y l =>
    intro acc acc' h
    simp only [recUnionMembers]
    cases hx : rec n x with
    | error e =>
      cases hy : rec n y with
      | error e' => simp [FRel]
      | ok o => simp [FRel]
    | ok ox =>
      obtain ⟨tx, lx⟩ := ox
      cases hy : rec n y with
      | error e' => simp [FRel]
      | ok oy =>
        obtain ⟨ty, ly⟩ := oy
        dsimp only
        apply recUnionMembers_rel rec rec n (fun m => RRel.refl _) l
        intro t
        simp only [mem_unionT]
        rw [h t]
        constructor
        · rintro ((h1 | h1) | h1)
          · exact Or.inl (Or.inl h1)
          · exact Or.inr h1
          · exact Or.inl (Or.inr h1)
        · rintro ((h1 | h1) | h1)
          · exact Or.inl (Or.inl h1)
          · exact Or.inr h1
          · exact Or.inl (Or.inr h1)
  | trans _ _ ih1 ih2 =>
    intro acc acc' h
    exact FRel.trans (ih1 acc acc (SameSet.refl _)) (ih2 acc acc' h)

theorem recUnion_of_frel (rec rec' : Node → Ty → RecRes) (n : Node) (ms ms' : List Ty)
    (h : FRel UnionAcc.types (recUnionMembers rec n ms ⟨[], []⟩) (recUnionMembers rec' n ms' ⟨[], []⟩)) :
    RRel (recUnion rec n ms) (recUnion rec' n ms') := by
  unfold recUnion
  cases h1 : recUnionMembers rec n ms ⟨[], []⟩ with
  | error e =>
    cases h2 : recUnionMembers rec' n ms' ⟨[], []⟩ with
    | error e' => simp [RRel]
    | ok a' => rw [h1, h2] at h; simp [FRel] at h
  | ok a =>
    cases h2 : recUnionMembers rec' n ms' ⟨[], []⟩ with
    | error e' => rw [h1, h2] at h; simp [FRel] at h
    | ok a' =>
      rw [h1, h2] at h
      have hs : SameSet (dropBoolFix a.types) (dropBoolFix a'.types) := sameSet_dropBoolFix h
      dsimp only
      split <;> split <;> exact hs

theorem recSubclasses_rel (recC recC' : ClassDef → RecRes) (hrel : ∀ d, RRel (recC d) (recC' d)) :
    ∀ (ds : List ClassDef) (acc acc' : ClsAcc), SameSet acc.types acc'.types →
      FRel ClsAcc.types (recSubclasses recC ds acc) (recSubclasses recC' ds acc') := by
  intro ds
  induction ds with
  | nil => intro acc acc' h; simpa [recSubclasses, FRel] using h
  | cons d rest ih =>
    intro acc acc' h
    unfold recSubclasses
    rcases rrel_cases (hrel d) with ⟨e, e', h1, h2⟩ | ⟨ts, ls, ts', ls', h1, h2, hs⟩
    · rw [h1, h2]; simp [FRel]
    · rw [h1, h2]
      exact ih _ _ (sameSet_unionT h hs)

theorem recSubclasses_perm (recC : ClassDef → RecRes) :
    ∀ (ds ds' : List ClassDef), ds.Perm ds' → ∀ (acc acc' : ClsAcc), SameSet acc.types acc'.types →
      FRel ClsAcc.types (recSubclasses recC ds acc) (recSubclasses recC ds' acc') := by
  intro ds ds' hp
  induction hp with
  | nil => intro acc acc' h; simpa [recSubclasses, FRel] using h
  | cons x _ ih =>
    intro acc acc' h
    unfold recSubclasses
    cases hx : recC x with
    | error e => simp [FRel]
    | ok o =>
      obtain ⟨ts, ls⟩ := o
      exact ih _ _ (sameSet_unionT h (SameSet.refl ts))
  | swap x y l =>
    intro acc acc' h
    simp only [recSubclasses]
    cases hx : recC x with
    | error e =>
      cases hy : recC y with
      | error e' => simp [FRel]
      | ok o => simp [FRel]
    | ok ox =>
      obtain ⟨tx, lx⟩ := ox
      cases hy : recC y with
      | error e' => simp [FRel]
      | ok oy =>
        obtain ⟨ty, ly⟩ := oy
        dsimp only
        apply recSubclasses_rel recC recC (fun d => RRel.refl _) l
        intro t
        simp only [mem_unionT]
        rw [h t]
        constructor
        · rintro ((h1 | h1) | h1)
          · exact Or.inl (Or.inl h1)
          · exact Or.inr h1
          · exact Or.inl (Or.inr h1)
        · rintro ((h1 | h1) | h1)
          · exact Or.inl (Or.inl h1)
          · exact Or.inr h1
          · exact Or.inl (Or.inr h1)
  | trans _ _ ih1 ih2 =>
    intro acc acc' h
    exact FRel.trans (ih1 acc acc (SameSet.refl _)) (ih2 acc acc' h)

/-! ### one class: custom recognisers and attributes only look at "recognised as something or not" -/

/-- agreement of two yes/no answers that may be fatal -/
def PRel {α : Type} (r r' : Except Fatal (Option α)) : Prop :=
  match r, r' with
  | .ok a, .ok a' => a.isNone = a'.isNone
  | .error _, .error _ => True
  | _, _ => False

theorem PRel.refl {α : Type} (r : Except Fatal (Option α)) : PRel r r := by
  cases r <;> simp [PRel]

theorem reqAttribute_rel (rec rec' : Node → Ty → RecRes) (hcb : CB rec rec') (n : Node) (a : String)
    (ty : Option Ty) : PRel (reqAttribute rec n a ty) (reqAttribute rec' n a ty) := by
  unfold reqAttribute
  split
  · split
    · simp [PRel]
    · rename_i v _ _
      split
      · simp [PRel]
      · rename_i T
        rcases hcb.cases v T with ⟨e, e', h1, h2⟩ | ⟨ts, ls, ts', ls', h1, h2, hs, _, _⟩
        · rw [h1, h2]; simp [PRel]
        · rw [h1, h2]
          dsimp only
          rw [len0_eq hs]
          split <;> simp [PRel]
  · simp [PRel]

theorem runRecOp_rel (ext : Ext) (rec rec' : Node → Ty → RecRes) (hcb : CB rec rec') (n : Node) (op : RecOp) :
    PRel (runRecOp ext rec n op) (runRecOp ext rec' n op) := by
  cases op with
  | requireAttribute a ty => exact reqAttribute_rel rec rec' hcb n a ty
  | requireScalar _ => exact PRel.refl _
  | requireMapping => exact PRel.refl _
  | requireSequence => exact PRel.refl _
  | requireAttributeValue _ _ => exact PRel.refl _
  | requireAttributeValueNot _ _ => exact PRel.refl _
  | raiseRecognition => exact PRel.refl _
  | raiseOther => exact PRel.refl _
  | «opaque» f => exact PRel.refl _

theorem runRecProg_rel (ext : Ext) (rec rec' : Node → Ty → RecRes) (hcb : CB rec rec') (n : Node) :
    ∀ prog, PRel (runRecProg ext rec n prog) (runRecProg ext rec' n prog) := by
  intro prog
  induction prog with
  | nil => simp [runRecProg, PRel]
  | cons op ops ih =>
    unfold runRecProg
    have h := runRecOp_rel ext rec rec' hcb n op
    cases h1 : runRecOp ext rec n op with
    | error e =>
      cases h2 : runRecOp ext rec' n op with
      | error e' => simp [PRel]
      | ok o => rw [h1, h2] at h; simp [PRel] at h
    | ok o =>
      cases h2 : runRecOp ext rec' n op with
      | error e' => rw [h1, h2] at h; simp [PRel] at h
      | ok o' =>
        rw [h1, h2] at h
        simp only [PRel] at h
        cases o with
        | none =>
          cases o' with
          | none => exact ih
          | some c => simp at h
        | some c =>
          cases o' with
          | none => simp at h
          | some c' => simp [PRel]

/-- agreement on one spelling of an attribute name -/
def TRel (r r' : Option (Except Fatal (Option (List Leaf)))) : Prop :=
  match r, r' with
  | none, none => True
  | some a, some a' => PRel a a'
  | _, _ => False

theorem tryAttrName_rel (rec rec' : Node → Ty → RecRes) (hcb : CB rec rec') (ps : List (Node × Node)) (ty : Ty)
    (name : String) : TRel (tryAttrName rec ps ty name) (tryAttrName rec' ps ty name) := by
  unfold tryAttrName
  split
  · split
    · rename_i v _
      rcases hcb.cases v ty with ⟨e, e', h1, h2⟩ | ⟨ts, ls, ts', ls', h1, h2, hs, _, _⟩
      · rw [h1, h2]; simp [TRel, PRel]
      · rw [h1, h2]
        dsimp only
        rw [len0_eq hs]
        split <;> simp [TRel, PRel]
    · simp [TRel, PRel]
  · simp [TRel]

theorem recAttr_rel (rec rec' : Node → Ty → RecRes) (hcb : CB rec rec') (n : Node) (ps : List (Node × Node))
    (p : Param) : PRel (recAttr rec n ps p) (recAttr rec' n ps p) := by
  unfold recAttr
  have h1 := tryAttrName_rel rec rec' hcb ps p.ty p.name
  cases ha : tryAttrName rec ps p.ty p.name with
  | some r =>
    cases hb : tryAttrName rec' ps p.ty p.name with
    | some r' => rw [ha, hb] at h1; exact h1
    | none => rw [ha, hb] at h1; simp [TRel] at h1
  | none =>
    cases hb : tryAttrName rec' ps p.ty p.name with
    | some r' => rw [ha, hb] at h1; simp [TRel] at h1
    | none =>
      dsimp only
      have h2 := tryAttrName_rel rec rec' hcb ps p.ty (dashed p.name)
      cases hc : tryAttrName rec ps p.ty (dashed p.name) with
      | some r =>
        cases hd : tryAttrName rec' ps p.ty (dashed p.name) with
        | some r' => rw [hc, hd] at h2; exact h2
        | none => rw [hc, hd] at h2; simp [TRel] at h2
      | none =>
        cases hd : tryAttrName rec' ps p.ty (dashed p.name) with
        | some r' => rw [hc, hd] at h2; simp [TRel] at h2
        | none => exact PRel.refl _

theorem recAttrs_rel (rec rec' : Node → Ty → RecRes) (hcb : CB rec rec') (n : Node) (ps : List (Node × Node)) :
    ∀ params, PRel (recAttrs rec n ps params) (recAttrs rec' n ps params) := by
  intro params
  induction params with
  | nil => simp [recAttrs, PRel]
  | cons p rest ih =>
    unfold recAttrs
    have h := recAttr_rel rec rec' hcb n ps p
    cases h1 : recAttr rec n ps p with
    | error e =>
      cases h2 : recAttr rec' n ps p with
      | error e' => simp [PRel]
      | ok o => rw [h1, h2] at h; simp [PRel] at h
    | ok o =>
      cases h2 : recAttr rec' n ps p with
      | error e' => rw [h1, h2] at h; simp [PRel] at h
      | ok o' =>
        rw [h1, h2] at h
        simp only [PRel] at h
        cases o with
        | none =>
          cases o' with
          | none => exact ih
          | some c => simp at h
        | some c =>
          cases o' with
          | none => simp at h
          | some c' => simp [PRel]

theorem recUserClass_rel (env env' : Env) (hext : env'.ext = env.ext) (rec rec' : Node → Ty → RecRes)
    (hcb : CB rec rec') (n : Node) (d : ClassDef) :
    RRel (recUserClass env rec n d) (recUserClass env' rec' n d) := by
  unfold recUserClass
  rw [hext]
  cases hr : d.recognize with
  | some prog =>
    dsimp only
    have h := runRecProg_rel env.ext rec rec' hcb n prog
    cases h1 : runRecProg env.ext rec n prog with
    | error e =>
      cases h2 : runRecProg env.ext rec' n prog with
      | error e' => simp [RRel]
      | ok o => rw [h1, h2] at h; simp [PRel] at h
    | ok o =>
      cases h2 : runRecProg env.ext rec' n prog with
      | error e' => rw [h1, h2] at h; simp [PRel] at h
      | ok o' =>
        rw [h1, h2] at h
        simp only [PRel] at h
        cases o with
        | none =>
          cases o' with
          | none => exact rrel_recOk _
          | some c => simp at h
        | some c =>
          cases o' with
          | none => simp at h
          | some c' => obtain ⟨m, k⟩ := c; obtain ⟨m', k'⟩ := c'; exact rrel_recFail _ _ _ _
  | none =>
    dsimp only
    cases hk : d.kind with
    | enum ms => exact RRel.refl _
    | stringLike => exact RRel.refl _
    | plain =>
      dsimp only
      cases n with
      | scalar _ _ _ => exact RRel.refl _
      | seq _ _ _ => exact RRel.refl _
      | map t ps mk =>
        dsimp only
        have h := recAttrs_rel rec rec' hcb (.map t ps mk) ps.toList d.params
        cases h1 : recAttrs rec (.map t ps mk) ps.toList d.params with
        | error e =>
          cases h2 : recAttrs rec' (.map t ps mk) ps.toList d.params with
          | error e' => simp [RRel]
          | ok o => rw [h1, h2] at h; simp [PRel] at h
        | ok o =>
          cases h2 : recAttrs rec' (.map t ps mk) ps.toList d.params with
          | error e' => rw [h1, h2] at h; simp [PRel] at h
          | ok o' =>
            rw [h1, h2] at h
            simp only [PRel] at h
            cases o with
            | none =>
              cases o' with
              | none => exact rrel_recOk _
              | some c => simp at h
            | some c =>
              cases o' with
              | none => simp at h
              | some c' => exact SameSet.refl _

theorem finishClasses_rel (env env' : Env) (hb : ∀ t, env'.byTag t = env.byTag t) (n : Node) (top : Bool)
    (ts ts' : List Ty) (causes causes' : List (List Leaf)) (hs : SameSet ts ts') (hn : ts.Nodup)
    (hn' : ts'.Nodup) : RRel (finishClasses env n top ts causes) (finishClasses env' n top ts' causes') := by
  unfold finishClasses
  have hl := sameSet_len hs hn hn'
  rw [hb, ← hl]
  split
  · exact SameSet.refl _
  · split
    · split
      · rename_i d _
        rw [← sameSet_contains hs]
        split
        · exact rrel_recOk _
        · exact hs
      · exact hs
    · split
      · split
        · rename_i d _
          rw [← sameSet_contains hs]
          split
          · exact hs
          · exact rrel_recFail _ _ _ _
        · exact rrel_recFail _ _ _ _
      · exact hs

/-! ### class tables that differ only in the order of registration -/

structure EnvPerm (env env' : Env) : Prop where
  perm : env.registered.Perm env'.registered
  names : (env.registered.map (·.name)).Nodup
  ext : env'.ext = env.ext

theorem find_perm (c : String) : ∀ (l l' : List ClassDef), l.Perm l' → (l.map (·.name)).Nodup →
    l.find? (fun d => d.name == c) = l'.find? (fun d => d.name == c) := by
  intro l l' hp
  induction hp with
  | nil => intro _; rfl
  | cons x _ ih =>
    intro hn
    simp only [List.map_cons, List.nodup_cons] at hn
    simp only [List.find?_cons]
    split
    · rfl
    · exact ih hn.2
  | swap x y l =>
    intro hn
    simp only [List.map_cons, List.nodup_cons, List.mem_cons, not_or] at hn
    simp only [List.find?_cons]
    by_cases hx : (x.name == c) = true
    · by_cases hy : (y.name == c) = true
      · have : y.name = x.name := by
          have a : y.name = c := by simpa using hy
          have b : x.name = c := by simpa using hx
          rw [a, b]
        exact absurd this hn.1.1
      · simp [hx, hy]
    · by_cases hy : (y.name == c) = true
      · simp [hx, hy]
      · simp [hx, hy]
  | trans h1 _ ih1 ih2 =>
    intro hn
    rw [ih1 hn]
    exact ih2 ((h1.map (·.name)).nodup hn)

theorem EnvPerm.find_eq {env env' : Env} (h : EnvPerm env env') (c : String) : env'.find c = env.find c := by
  unfold Env.find
  exact (find_perm c _ _ h.perm h.names).symm

theorem EnvPerm.isRegistered_eq {env env' : Env} (h : EnvPerm env env') (c : String) :
    env'.isRegistered c = env.isRegistered c := by
  unfold Env.isRegistered
  rw [Bool.eq_iff_iff, List.any_eq_true, List.any_eq_true]
  constructor
  · rintro ⟨d, hd, hc⟩; exact ⟨d, h.perm.mem_iff.mpr hd, hc⟩
  · rintro ⟨d, hd, hc⟩; exact ⟨d, h.perm.mem_iff.mp hd, hc⟩

theorem EnvPerm.byTag_eq {env env' : Env} (h : EnvPerm env env') (t : String) : env'.byTag t = env.byTag t := by
  unfold Env.byTag
  split
  · exact h.find_eq _
  · rfl

theorem EnvPerm.keyTypeOk_eq {env env' : Env} (h : EnvPerm env env') (k : Ty) : keyTypeOk env' k = keyTypeOk env k := by
  cases k <;> simp [keyTypeOk, h.find_eq]

theorem EnvPerm.subclasses {env env' : Env} (h : EnvPerm env env') (c : String) :
    (env.directSubclasses c).Perm (env'.directSubclasses c) := by
  unfold Env.directSubclasses
  exact h.perm.filter _

/-- **Registration order does not matter.**  For two class tables that hold the same classes (with
distinct names) in a different order, recognition of any node against any type gives the same set of
types, and is fatal for the one exactly when it is fatal for the other. -/
theorem recognizeReq_perm (env env' : Env) (h : EnvPerm env env') :
    ∀ (fuel : Nat) (n : Node) (q : Req), RRel (recognizeReq env fuel n q) (recognizeReq env' fuel n q) := by
  intro fuel
  induction fuel with
  | zero => intro n q; simp [recognizeReq, RRel]
  | succ fuel ih =>
    intro n q
    have hcb : CB (fun x U => recognizeReq env fuel x (.ty U)) (fun x U => recognizeReq env' fuel x (.ty U)) :=
      ⟨fun x U => ih x (.ty U), fun x U => recognizeReq_nodup env fuel x (.ty U),
       fun x U => recognizeReq_nodup env' fuel x (.ty U)⟩
    cases q with
    | ty T =>
      cases T with
      | union ms =>
        simp only [recognizeReq]
        exact recUnion_of_frel _ _ n _ _
          (recUnionMembers_rel _ _ n (fun m => ih n (.ty m)) ms.toList ⟨[], []⟩ ⟨[], []⟩ (SameSet.refl _))
      | seq k item =>
        simp only [recognizeReq, recList]
        split
        · exact recListItems_rel _ _ hcb _ item _ none none ambRel_none
        · exact RRel.refl _
      | map k a b =>
        simp only [recognizeReq, recDict]
        rw [h.keyTypeOk_eq]
        split
        · simp [RRel]
        · split
          · exact recDictPairs_rel _ _ hcb _ a b _ none none ambRel_none
          · exact RRel.refl _
      | cls c =>
        simp only [recognizeReq]
        rw [h.isRegistered_eq]
        split
        · exact ih n (.classes c true)
        · simp [RRel]
      | any => simp only [recognizeReq]; exact RRel.refl _
      | str => simp only [recognizeReq]; exact RRel.refl _
      | int => simp only [recognizeReq]; exact RRel.refl _
      | float => simp only [recognizeReq]; exact RRel.refl _
      | bool => simp only [recognizeReq]; exact RRel.refl _
      | boolFix => simp only [recognizeReq]; exact RRel.refl _
      | null => simp only [recognizeReq]; exact RRel.refl _
      | date => simp only [recognizeReq]; exact RRel.refl _
      | path => simp only [recognizeReq]; exact RRel.refl _
    | classes c top =>
      simp only [recognizeReq]
      rw [h.find_eq]
      cases hf : env.find c with
      | none => simp [RRel]
      | some d =>
        dsimp only
        have hsub : FRel ClsAcc.types
            (recSubclasses (fun s => recognizeReq env fuel n (.classes s.name false)) (env.directSubclasses c) ⟨[], []⟩)
            (recSubclasses (fun s => recognizeReq env' fuel n (.classes s.name false)) (env'.directSubclasses c) ⟨[], []⟩) :=
          FRel.trans
            (recSubclasses_perm _ _ _ (h.subclasses c) ⟨[], []⟩ ⟨[], []⟩ (SameSet.refl _))
            (recSubclasses_rel _ _ (fun s => ih n (.classes s.name false)) _ ⟨[], []⟩ ⟨[], []⟩ (SameSet.refl _))
        cases h1 : recSubclasses (fun s => recognizeReq env fuel n (.classes s.name false)) (env.directSubclasses c) ⟨[], []⟩ with
        | error e =>
          cases h2 : recSubclasses (fun s => recognizeReq env' fuel n (.classes s.name false)) (env'.directSubclasses c) ⟨[], []⟩ with
          | error e' => simp [RRel]
          | ok a' => rw [h1, h2] at hsub; simp [FRel] at hsub
        | ok a =>
          cases h2 : recSubclasses (fun s => recognizeReq env' fuel n (.classes s.name false)) (env'.directSubclasses c) ⟨[], []⟩ with
          | error e' => rw [h1, h2] at hsub; simp [FRel] at hsub
          | ok a' =>
            rw [h1, h2] at hsub
            have hs : SameSet a.types a'.types := hsub
            have hna : a.types.Nodup := recSubclasses_nd _ _ ⟨[], []⟩ a (by simp) h1
            have hna' : a'.types.Nodup := recSubclasses_nd _ _ ⟨[], []⟩ a' (by simp) h2
            dsimp only
            rw [← len0_eq hs]
            split
            · split
              · exact finishClasses_rel env env' h.byTag_eq n top [] [] _ _ (SameSet.refl _) (by simp) (by simp)
              · have huc := recUserClass_rel env env' h.ext _ _ hcb n d
                rcases rrel_cases huc with ⟨e, e', g1, g2⟩ | ⟨ts, ls, ts', ls', g1, g2, gs⟩
                · rw [g1, g2]; simp [RRel]
                · rw [g1, g2]
                  dsimp only
                  have n1 := recUserClass_nd env (fun x U => recognizeReq env fuel x (.ty U)) n d
                  have n2 := recUserClass_nd env' (fun x U => recognizeReq env' fuel x (.ty U)) n d
                  rw [g1] at n1
                  rw [g2] at n2
                  exact finishClasses_rel env env' h.byTag_eq n top ts ts' _ _ gs n1 n2
            · exact finishClasses_rel env env' h.byTag_eq n top a.types a'.types _ _ hs hna hna'

/-- **The order of the members of a Union does not matter**: the same set of types is recognised for
`Union[m1, …, mk]` and for any permutation of its members. -/
theorem recognizeReq_union_perm (env : Env) (fuel : Nat) (n : Node) (ms ms' : Tys)
    (hp : ms.toList.Perm ms'.toList) :
    RRel (recognizeReq env (fuel + 1) n (.ty (.union ms))) (recognizeReq env (fuel + 1) n (.ty (.union ms'))) := by
  simp only [recognizeReq]
  exact recUnion_of_frel _ _ n _ _
    (recUnionMembers_perm _ n _ _ hp ⟨[], []⟩ ⟨[], []⟩ (SameSet.refl _))

/-- when one answer is a single type, so is the other, and it is the same type -/
theorem rrel_singleton {r r' : RecRes} (h : RRel r r') (hn : NdOk r) (hn' : NdOk r') (R : Ty) (ls : List Leaf)
    (hr : r = .ok ([R], ls)) : ∃ ls', r' = .ok ([R], ls') := by
  subst hr
  rcases rrel_cases h with ⟨e, e', h1, _⟩ | ⟨ts, ls0, ts', ls', h1, h2, hs⟩
  · cases h1
  · simp only [Except.ok.injEq, Prod.mk.injEq] at h1
    obtain ⟨rfl, rfl⟩ := h1
    subst h2
    have hl := sameSet_len hs hn hn'
    have hm : R ∈ ts' := (hs R).mp List.mem_cons_self
    cases ts' with
    | nil => cases hm
    | cons a rest =>
      cases rest with
      | nil =>
        simp only [List.mem_singleton] at hm
        subst hm
        exact ⟨ls', rfl⟩
      | cons b rest' => simp at hl

end YatimlModel
