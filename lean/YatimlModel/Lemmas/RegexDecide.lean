import YatimlModel.Model.Resolver
import YatimlModel.Lemmas.RegexRep
/-!
A reflective decision procedure for universally quantified statements about a
*vector* of regular expressions:  `∀ s, good (v.map (rmatch · s))`.

`explore` computes (untrusted) the set of derivative vectors reachable from `v`;
`closed` checks (trusted, evaluated by the kernel) that this set is closed under
derivatives w.r.t. one representative per character class and that `good` holds
of the nullability bits of every vector in it.  `vecCheck_sound` is proved once;
each use is `by decide +kernel` on a regenerated table.
-/
namespace YatimlModel
open Re

abbrev Vec := List Re
def stepV (c : Nat) (v : Vec) : Vec := v.map (deriv c)
def nulls (v : Vec) : List Bool := v.map nullable
def runV (v : Vec) (s : List Nat) : Vec := s.foldl (fun v c => stepV c v) v

def boundsOk (bs : List Nat) (v : Vec) : Bool :=
  v.all (fun r => (bounds r).all (fun b => bs.contains b))

def closed (bs : List Nat) (good : List Bool → Bool) (R : List Vec) : Bool :=
  R.all (fun v => good (nulls v) && boundsOk bs v && (0 :: bs).all (fun c => R.contains (stepV c v)))

theorem stepV_rep (bs : List Nat) (c : Nat) (v : Vec) (h : boundsOk bs v = true) :
    stepV c v = stepV (rep' bs c) v := by
  unfold stepV
  apply List.map_congr_left
  intro r hr
  apply deriv_rep
  intro b hb
  simp only [boundsOk, List.all_eq_true] at h
  have := h r hr b hb
  simpa using this

theorem closed_sound (bs : List Nat) (good : List Bool → Bool) (R : List Vec)
    (hc : closed bs good R = true) :
    ∀ (s : List Nat) (v : Vec), v ∈ R → good (nulls (runV v s)) = true := by
  intro s
  induction s with
  | nil =>
    intro v hv
    simp only [closed, List.all_eq_true, Bool.and_eq_true] at hc
    exact (hc v hv).1.1
  | cons c s ih =>
    intro v hv
    have hcv := hc
    simp only [closed, List.all_eq_true, Bool.and_eq_true] at hcv
    obtain ⟨⟨_, hb⟩, hstep⟩ := hcv v hv
    have hrep : rep' bs c ∈ (0 :: bs) := by
      rcases rep'_mem bs c with h | h
      · exact List.mem_cons_of_mem _ h
      · rw [h]; exact List.mem_cons_self
    have hin := hstep _ hrep
    have hin' : stepV (rep' bs c) v ∈ R := by simpa using hin
    show good (nulls (runV (stepV c v) s)) = true
    rw [stepV_rep bs c v hb]
    exact ih _ hin'

/-- candidate set computed by a worklist (untrusted; only `closed` is trusted) -/
def explore (bs : List Nat) : Nat → List Vec → List Vec → List Vec
  | 0, _, seen => seen
  | _, [], seen => seen
  | fuel+1, v :: todo, seen =>
    if seen.contains v then explore bs fuel todo seen
    else explore bs fuel ((0 :: bs).map (fun c => stepV c v) ++ todo) (v :: seen)

def insertSorted (x : Nat) : List Nat → List Nat
  | [] => [x]
  | y :: ys => if x < y then x :: y :: ys else if x == y then y :: ys else y :: insertSorted x ys
def allBounds (rs : List Re) : List Nat := (rs.flatMap bounds).foldr insertSorted []

theorem runV_map (v : Vec) (s : List Nat) : runV v s = v.map (fun r => derivs r s) := by
  induction s generalizing v with
  | nil => simp [runV, derivs]
  | cons c s ih =>
    simp only [runV, List.foldl_cons] at *
    rw [ih]
    simp [stepV, derivs]

theorem nulls_runV (v : Vec) (s : List Nat) : nulls (runV v s) = v.map (fun r => rmatch r s) := by
  rw [runV_map]; simp [nulls, rmatch]

/-- the generic reflective check -/
def vecCheck (bs : List Nat) (v : Vec) (good : List Bool → Bool) : Bool :=
  let R := explore bs 1000000 [v] []
  R.contains v && closed bs good R

theorem vecCheck_sound (bs : List Nat) (v : Vec) (good : List Bool → Bool)
    (h : vecCheck bs v good = true) :
    ∀ s, good (v.map (fun r => rmatch r s)) = true := by
  intro s
  simp only [vecCheck, Bool.and_eq_true] at h
  have hin : v ∈ explore bs 1000000 [v] [] := by simpa using h.1
  have := closed_sound _ _ _ h.2 s v hin
  rwa [nulls_runV] at this

/-! ### Resolver tables: dispatch on the first character, then a vector check

A problem is a list of resolver tables, a list of specification regexes and a
predicate `good` on (the tag each table resolves `s` to, whether each spec
matches `s`).  `probCheck` decides `∀ s, good …` : the empty string is evaluated
directly; for a non-empty string `c :: w` each table is reduced to the entries
whose bucket admits `c`, derived by `c`, and the remaining statement about `w`
is a vector check. -/

def Key.admitsHead : Key → Nat → Bool
  | .wild, _ => true
  | .empty, _ => false
  | .ch k, c => CSet.mem [(k, k)] c

/-- the entries that apply to a string starting with `c`, after reading `c` -/
def after (tbl : List Entry) (c : Nat) : List (RTag × Re) :=
  (tbl.filter (fun e => e.key.admitsHead c)).map (fun e => (e.tag, deriv c e.re))

def firstTag : List RTag → List Bool → RTag
  | t :: ts, b :: bs => if b then t else firstTag ts bs
  | _, _ => tagStr

theorem cset_single (k c : Nat) : CSet.mem [(k, k)] c = (c == k) := by
  simp only [CSet.mem, List.any_cons, List.any_nil, Bool.or_false, ble_dec]
  rw [Bool.eq_iff_iff]
  simp only [Bool.and_eq_true, decide_eq_true_eq, beq_iff_eq]
  omega

theorem derivs_cons (r : Re) (c : Nat) (s : List Nat) : derivs r (c :: s) = derivs (deriv c r) s := rfl
theorem rmatch_cons (r : Re) (c : Nat) (s : List Nat) : rmatch r (c :: s) = rmatch (deriv c r) s := rfl
theorem rmatch_nil (r : Re) : rmatch r [] = nullable r := rfl

theorem admits_cons (k : Key) (c : Nat) (w : List Nat) : k.admits (c :: w) = k.admitsHead c := by
  cases k <;> simp [Key.admits, Key.admitsHead, cset_single]

theorem matches_cons (e : Entry) (c : Nat) (w : List Nat) :
    e.matches (c :: w) = (e.key.admitsHead c && rmatch (deriv c e.re) w) := by
  simp [Entry.matches, admits_cons, rmatch_cons]

theorem resolve_cons (tbl : List Entry) (c : Nat) (w : List Nat) :
    resolve tbl (c :: w) =
      firstTag ((after tbl c).map (·.1)) ((after tbl c).map (fun p => rmatch p.2 w)) := by
  induction tbl with
  | nil => rfl
  | cons e es ih =>
    simp only [resolve, List.find?_cons, after, List.filter_cons, matches_cons] at *
    cases h1 : e.key.admitsHead c
    · simpa using ih
    · cases h2 : rmatch (deriv c e.re) w
      · simpa [firstTag, h2] using ih
      · simp [firstTag, h2]

/-- resolved tag per table, from the concatenated match bits; returns the unused bits -/
def tagsOf : List (List RTag) → List Bool → List RTag × List Bool
  | [], bits => ([], bits)
  | ts :: rest, bits =>
    let r := tagsOf rest (bits.drop ts.length)
    (firstTag ts bits :: r.1, r.2)

theorem firstTag_append (ts : List RTag) (xs ys : List Bool) (h : xs.length = ts.length) :
    firstTag ts (xs ++ ys) = firstTag ts xs := by
  induction ts generalizing xs with
  | nil => cases xs <;> simp_all [firstTag]
  | cons t ts ih =>
    cases xs with
    | nil => simp at h
    | cons b bs =>
      simp only [List.cons_append, firstTag]
      rw [ih bs (by simpa using h)]

structure Prob where
  tbls : List (List Entry)
  specs : List Re
  good : List RTag → List Bool → Bool

def Prob.vecAt (p : Prob) (c : Nat) : Vec :=
  p.tbls.flatMap (fun tbl => (after tbl c).map (·.2)) ++ p.specs.map (deriv c)
def Prob.segsAt (p : Prob) (c : Nat) : List (List RTag) :=
  p.tbls.map (fun tbl => (after tbl c).map (·.1))
def Prob.goodOf (p : Prob) (segs : List (List RTag)) (bits : List Bool) : Bool :=
  let r := tagsOf segs bits
  p.good r.1 r.2
def Prob.goodAt (p : Prob) (c : Nat) (bits : List Bool) : Bool := p.goodOf (p.segsAt c) bits

def dedup {α : Type} [BEq α] : List α → List α
  | [] => []
  | x :: xs => if xs.contains x then dedup xs else x :: dedup xs

theorem mem_dedup {α : Type} [BEq α] [LawfulBEq α] (x : α) (l : List α) (h : x ∈ l) : x ∈ dedup l := by
  induction l with
  | nil => cases h
  | cons y ys ih =>
    simp only [dedup]
    rcases List.mem_cons.mp h with e | e
    · subst e
      split
      · rename_i hc
        exact ih (by simpa using hc)
      · exact List.mem_cons_self
    · split
      · exact ih e
      · exact List.mem_cons_of_mem _ (ih e)

theorem tagsOf_spec (tbls : List (List Entry)) (c : Nat) (w : List Nat) (tail : List Bool) :
    tagsOf (tbls.map (fun tbl => (after tbl c).map (·.1)))
      ((tbls.flatMap (fun tbl => (after tbl c).map (·.2))).map (fun r => rmatch r w) ++ tail)
    = (tbls.map (fun tbl => resolve tbl (c :: w)), tail) := by
  induction tbls with
  | nil => simp [tagsOf]
  | cons t ts ih =>
    simp only [List.map_cons, List.flatMap_cons, List.map_append, tagsOf, List.append_assoc]
    rw [firstTag_append _ _ _ (by simp), List.drop_left' (by simp), ih, resolve_cons]
    simp [List.map_map, Function.comp_def]

theorem goodAt_spec (p : Prob) (c : Nat) (w : List Nat) :
    p.goodAt c ((p.vecAt c).map (fun r => rmatch r w))
      = p.good (p.tbls.map (fun tbl => resolve tbl (c :: w))) (p.specs.map (fun r => rmatch r (c :: w))) := by
  simp only [Prob.goodAt, Prob.goodOf, Prob.vecAt, Prob.segsAt, List.map_append]
  rw [tagsOf_spec]
  simp [List.map_map, Function.comp_def, rmatch_cons]

def Prob.allRes (p : Prob) : List Re := p.tbls.flatMap (fun tbl => tbl.map (·.re)) ++ p.specs
def keyBounds : List Entry → List Nat
  | [] => []
  | e :: es => (match e.key with | .ch k => [k, k + 1] | _ => []) ++ keyBounds es
def Prob.bounds (p : Prob) : List Nat :=
  (p.allRes.flatMap Re.bounds ++ p.tbls.flatMap keyBounds).foldr insertSorted []

def keysOk (bs : List Nat) (tbl : List Entry) : Bool :=
  tbl.all (fun e => match e.key with | .ch k => bs.contains k && bs.contains (k + 1) | _ => true)

theorem admitsHead_rep (bs : List Nat) (k : Key) (c : Nat)
    (h : (match k with | .ch k => bs.contains k && bs.contains (k + 1) | _ => true) = true) :
    k.admitsHead c = k.admitsHead (rep' bs c) := by
  cases k with
  | wild => rfl
  | empty => rfl
  | ch k =>
    simp only [Bool.and_eq_true, List.contains_iff_mem] at h
    simp only [Key.admitsHead]
    apply cset_mem_rep
    intro q hq
    simp only [List.mem_cons, List.not_mem_nil, or_false] at hq
    subst hq
    simpa using h

theorem after_rep (bs : List Nat) (tbl : List Entry) (c : Nat)
    (hk : keysOk bs tbl = true) (hb : boundsOk bs (tbl.map (·.re)) = true) :
    after tbl c = after tbl (rep' bs c) := by
  induction tbl with
  | nil => rfl
  | cons e es ih =>
    simp only [keysOk, List.all_cons, Bool.and_eq_true] at hk
    simp only [boundsOk, List.map_cons, List.all_cons, Bool.and_eq_true] at hb
    have ih' := ih (by simpa [keysOk] using hk.2) (by simpa [boundsOk] using hb.2)
    have h1 := admitsHead_rep bs e.key c hk.1
    have h2 : deriv c e.re = deriv (rep' bs c) e.re := by
      apply deriv_rep
      intro b hbm
      have := hb.1
      simp only [List.all_eq_true] at this
      simpa using this b hbm
    simp only [after, List.filter_cons] at ih' ⊢
    rw [← h1]
    cases h : e.key.admitsHead c <;> simp [ih', h2]

/-- `bs` is an untrusted list of boundaries (normally `p.bounds`, supplied as a
literal so that the kernel does not have to compute it); the check verifies that
it covers every boundary that matters. -/
def Prob.check (p : Prob) (bs : List Nat) : Bool :=
  p.good (p.tbls.map (fun tbl => resolve tbl [])) (p.specs.map nullable)
  && p.tbls.all (fun tbl => keysOk bs tbl && boundsOk bs (tbl.map (·.re)))
  && boundsOk bs p.specs
  && (dedup ((0 :: bs).map (fun c => (p.segsAt c, p.vecAt c)))).all (fun sv => vecCheck bs sv.2 (p.goodOf sv.1))

theorem Prob.check_sound (p : Prob) (bs : List Nat) (h : p.check bs = true) :
    ∀ s, p.good (p.tbls.map (fun tbl => resolve tbl s)) (p.specs.map (fun r => rmatch r s)) = true := by
  intro s
  simp only [Prob.check, Bool.and_eq_true, List.all_eq_true] at h
  obtain ⟨⟨⟨h0, htb⟩, hsp⟩, hvec⟩ := h
  cases s with
  | nil => simpa [rmatch_nil] using h0
  | cons c w =>
    have hrep : rep' bs c ∈ (0 :: bs) := by
      rcases rep'_mem bs c with h | h
      · exact List.mem_cons_of_mem _ h
      · rw [h]; exact List.mem_cons_self
    have hmem : (p.segsAt (rep' bs c), p.vecAt (rep' bs c)) ∈
        dedup ((0 :: bs).map (fun c => (p.segsAt c, p.vecAt c))) :=
      mem_dedup _ _ (List.mem_map.mpr ⟨_, hrep, rfl⟩)
    have hv := vecCheck_sound _ _ _ (hvec _ hmem) w
    change p.goodAt (rep' bs c) _ = true at hv
    rw [goodAt_spec] at hv
    have e1 : ∀ tbl ∈ p.tbls, resolve tbl (rep' bs c :: w) = resolve tbl (c :: w) := by
      intro tbl ht
      have := htb tbl ht
      rw [resolve_cons, resolve_cons, ← after_rep bs tbl c this.1 this.2]
    have e2 : ∀ r ∈ p.specs, rmatch r (rep' bs c :: w) = rmatch r (c :: w) := by
      intro r hr
      rw [rmatch_cons, rmatch_cons]
      congr 1
      symm
      apply deriv_rep
      intro b hbm
      simp only [boundsOk, List.all_eq_true] at hsp
      simpa using hsp r hr b hbm
    rw [List.map_congr_left e1, List.map_congr_left e2] at hv
    exact hv

/-! ### guarded problems: `∀ s, rmatch guard s → good …`

Once the guard regex is dead (its derivative is `∅`) the statement holds for every continuation, so such
states need neither be expanded nor closed under derivatives.  This keeps the explored set down to the
prefixes of the guard language. -/

theorem derivs_empty' (s : List Nat) : derivs Re.empty s = Re.empty := by
  induction s with
  | nil => rfl
  | cons c s ih => exact ih

def isDead : Re → Bool
  | .empty => true
  | _ => false

theorem isDead_eq (r : Re) (h : isDead r = true) : r = .empty := by
  cases r <;> simp_all [isDead]

def closedG (bs : List Nat) (good : List Bool → Bool) (R : List Vec) : Bool :=
  R.all (fun v =>
    match v with
    | g :: rest =>
      isDead g || (((!nullable g) || good (nulls rest)) && boundsOk bs v
        && (0 :: bs).all (fun c => R.contains (stepV c v)))
    | [] => false)

def exploreG (bs : List Nat) : Nat → List Vec → List Vec → List Vec
  | 0, _, seen => seen
  | _, [], seen => seen
  | fuel+1, v :: todo, seen =>
    if seen.contains v then exploreG bs fuel todo seen
    else
      match v with
      | g :: _ =>
        if isDead g then exploreG bs fuel todo (v :: seen)
        else exploreG bs fuel ((0 :: bs).map (fun c => stepV c v) ++ todo) (v :: seen)
      | [] => exploreG bs fuel todo (v :: seen)

theorem closedG_sound (bs : List Nat) (good : List Bool → Bool) (R : List Vec)
    (hc : closedG bs good R = true) :
    ∀ (s : List Nat) (g : Re) (rest : Vec), (g :: rest) ∈ R →
      rmatch g s = true → good (nulls (runV rest s)) = true := by
  intro s
  induction s with
  | nil =>
    intro g rest hv hm
    simp only [closedG, List.all_eq_true] at hc
    have := hc _ hv
    simp only [Bool.or_eq_true, Bool.and_eq_true] at this
    rcases this with hd | ⟨⟨hg, _⟩, _⟩
    · rw [isDead_eq g hd] at hm; simp [rmatch, derivs, nullable] at hm
    · simp only [rmatch, derivs, List.foldl_nil] at hm
      rw [hm] at hg
      simpa [runV] using hg
  | cons c s ih =>
    intro g rest hv hm
    have hcv := hc
    simp only [closedG, List.all_eq_true] at hcv
    have := hcv _ hv
    simp only [Bool.or_eq_true, Bool.and_eq_true, List.all_eq_true] at this
    rcases this with hd | ⟨⟨_, hb⟩, hstep⟩
    · rw [isDead_eq g hd] at hm
      simp [rmatch, derivs_empty', nullable] at hm
    · have hrep : rep' bs c ∈ (0 :: bs) := by
        rcases rep'_mem bs c with h | h
        · exact List.mem_cons_of_mem _ h
        · rw [h]; exact List.mem_cons_self
      have hin := hstep _ hrep
      have hin' : stepV (rep' bs c) (g :: rest) ∈ R := by simpa using hin
      have hs := stepV_rep bs c (g :: rest) hb
      rw [← hs] at hin'
      have hcons : stepV c (g :: rest) = deriv c g :: stepV c rest := by simp [stepV]
      rw [hcons] at hin'
      have := ih (deriv c g) (stepV c rest) hin' (by simpa [rmatch, derivs] using hm)
      simpa [runV] using this

def vecCheckG (bs : List Nat) (g : Re) (v : Vec) (good : List Bool → Bool) : Bool :=
  let R := exploreG bs 1000000 [g :: v] []
  R.contains (g :: v) && closedG bs good R

theorem vecCheckG_sound (bs : List Nat) (g : Re) (v : Vec) (good : List Bool → Bool)
    (h : vecCheckG bs g v good = true) :
    ∀ s, rmatch g s = true → good (v.map (fun r => rmatch r s)) = true := by
  intro s hm
  simp only [vecCheckG, Bool.and_eq_true] at h
  have hin : (g :: v) ∈ exploreG bs 1000000 [g :: v] [] := by simpa using h.1
  have := closedG_sound _ _ _ h.2 s g v hin hm
  rwa [nulls_runV] at this

/-- a guarded problem: for every string the guard matches, `base.good` holds -/
structure GProb where
  guard : Re
  base : Prob

def GProb.bounds (p : GProb) : List Nat :=
  ((p.guard :: p.base.allRes).flatMap Re.bounds ++ p.base.tbls.flatMap keyBounds).foldr insertSorted []

def GProb.check (p : GProb) (bs : List Nat) : Bool :=
  ((!nullable p.guard) || p.base.good (p.base.tbls.map (fun tbl => resolve tbl [])) (p.base.specs.map nullable))
  && p.base.tbls.all (fun tbl => keysOk bs tbl && boundsOk bs (tbl.map (·.re)))
  && boundsOk bs (p.guard :: p.base.specs)
  && (dedup ((0 :: bs).map (fun c => (p.base.segsAt c, deriv c p.guard, p.base.vecAt c)))).all
      (fun sv => vecCheckG bs sv.2.1 sv.2.2 (p.base.goodOf sv.1))

theorem GProb.check_sound (p : GProb) (bs : List Nat) (h : p.check bs = true) :
    ∀ s, rmatch p.guard s = true →
      p.base.good (p.base.tbls.map (fun tbl => resolve tbl s)) (p.base.specs.map (fun r => rmatch r s)) = true := by
  intro s hm
  simp only [GProb.check, Bool.and_eq_true, List.all_eq_true] at h
  obtain ⟨⟨⟨h0, htb⟩, hsp⟩, hvec⟩ := h
  cases s with
  | nil =>
    simp only [rmatch_nil] at hm
    simpa [rmatch_nil, hm] using h0
  | cons c w =>
    have hrep : rep' bs c ∈ (0 :: bs) := by
      rcases rep'_mem bs c with h | h
      · exact List.mem_cons_of_mem _ h
      · rw [h]; exact List.mem_cons_self
    have hmem : (p.base.segsAt (rep' bs c), deriv (rep' bs c) p.guard, p.base.vecAt (rep' bs c)) ∈
        dedup ((0 :: bs).map (fun c => (p.base.segsAt c, deriv c p.guard, p.base.vecAt c))) :=
      mem_dedup _ _ (List.mem_map.mpr ⟨_, hrep, rfl⟩)
    have hsp' : boundsOk bs [p.guard] = true ∧ boundsOk bs p.base.specs = true := by
      simp only [boundsOk, List.all_cons, Bool.and_eq_true] at hsp ⊢
      exact ⟨⟨hsp.1, by simp⟩, hsp.2⟩
    have hg : deriv (rep' bs c) p.guard = deriv c p.guard := by
      symm
      apply deriv_rep
      intro b hbm
      have := hsp'.1
      simp only [boundsOk, List.all_cons, List.all_nil, Bool.and_true, List.all_eq_true] at this
      simpa using this b hbm
    have hv := vecCheckG_sound _ _ _ _ (hvec _ hmem) w (by rw [hg]; simpa [rmatch_cons] using hm)
    change p.base.goodAt (rep' bs c) _ = true at hv
    rw [goodAt_spec] at hv
    have e1 : ∀ tbl ∈ p.base.tbls, resolve tbl (rep' bs c :: w) = resolve tbl (c :: w) := by
      intro tbl ht
      have := htb tbl ht
      rw [resolve_cons, resolve_cons, ← after_rep bs tbl c this.1 this.2]
    have e2 : ∀ r ∈ p.base.specs, rmatch r (rep' bs c :: w) = rmatch r (c :: w) := by
      intro r hr
      rw [rmatch_cons, rmatch_cons]
      congr 1
      symm
      apply deriv_rep
      intro b hbm
      have := hsp'.2
      simp only [boundsOk, List.all_eq_true] at this
      simpa using this r hr b hbm
    rw [List.map_congr_left e1, List.map_congr_left e2] at hv
    exact hv

end YatimlModel
