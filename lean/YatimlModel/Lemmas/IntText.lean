import YatimlModel.Model.Scalars
/-!
`construct_yaml_int` reads the decimal text of an integer (`str(i)`, what `represent_int` writes) back as
that integer.
-/
namespace YatimlModel

theorem digitVal_digitChar : ∀ d, d < 10 → digitVal d.digitChar = some d := by decide

theorem digitsVal_append (b : Nat) : ∀ (l1 l2 : List Char) (acc : Nat),
    digitsVal b (l1 ++ l2) acc = (match digitsVal b l1 acc with
      | some a => digitsVal b l2 a
      | none => none)
  | [], _, _ => rfl
  | c :: l1, l2, acc => by
    simp only [List.cons_append, digitsVal]
    cases digitVal c with
    | none => rfl
    | some d =>
      simp only
      split
      · exact digitsVal_append b l1 l2 _
      · rfl

theorem digitsVal_toDigits : ∀ (n : Nat), digitsVal 10 (Nat.toDigits 10 n) 0 = some n := by
  intro n
  induction n using Nat.strongRecOn with
  | _ n ih =>
    rw [Nat.toDigits_eq_if (by decide)]
    split
    · rename_i h
      simp [digitsVal, digitVal_digitChar n h, h]
    · rename_i h
      have hlt : n / 10 < n := Nat.div_lt_self (by omega) (by decide)
      rw [digitsVal_append, ih (n / 10) hlt]
      have hm : n % 10 < 10 := Nat.mod_lt _ (by decide)
      simp only [digitsVal, digitVal_digitChar (n % 10) hm, hm, if_true]
      congr 1
      omega

/-- every character of a decimal numeral is one of `0`..`9` -/
def isDec (c : Char) : Bool := c.isDigit

theorem toDigits_isDec (n : Nat) : ∀ c ∈ Nat.toDigits 10 n, isDec c = true :=
  fun _ hc => Nat.isDigit_of_mem_toDigits (by decide) (by decide) hc

theorem head_toDigits_ne_zero : ∀ (n : Nat), 0 < n → ∀ c rest, Nat.toDigits 10 n = c :: rest → c ≠ '0' := by
  intro n
  induction n using Nat.strongRecOn with
  | _ n ih =>
    intro hn c rest h
    rw [Nat.toDigits_eq_if (by decide)] at h
    split at h
    · simp only [List.cons.injEq] at h
      rw [← h.1]
      intro hc
      have := Nat.digitChar_eq_zero.mp hc
      omega
    · rename_i hge
      have hlt : n / 10 < n := Nat.div_lt_self (by omega) (by decide)
      have hpos : 0 < n / 10 := Nat.div_pos (by omega) (by decide)
      cases hd : Nat.toDigits 10 (n / 10) with
      | nil => exact absurd hd Nat.toDigits_ne_nil
      | cons c' rest' =>
        rw [hd] at h
        simp only [List.cons_append, List.cons.injEq] at h
        rw [← h.1]
        exact ih (n / 10) hlt hpos c' rest' hd

theorem isDec_facts (c : Char) (h : isDec c = true) :
    isPySpace c = false ∧ (c == '_') = false ∧ (c == '+') = false ∧ (c == '-') = false ∧ (c == ':') = false ∧
    c ≠ 'b' ∧ c ≠ 'x' := by
  unfold isDec Char.isDigit at h
  simp only [Bool.and_eq_true, decide_eq_true_eq] at h
  have h1 : 48 ≤ c.val.toNat := by
    have := h.1; simpa [UInt32.le_iff_toNat_le] using this
  have h2 : c.val.toNat ≤ 57 := by
    have := h.2; simpa [UInt32.le_iff_toNat_le] using this
  have ne : ∀ (k : Char), (k.val.toNat < 48 ∨ 57 < k.val.toNat) → c ≠ k := by
    intro k hk hck; subst hck; omega
  refine ⟨?_, ?_, ?_, ?_, ?_, ne 'b' (by decide), ne 'x' (by decide)⟩
  · unfold isPySpace
    simp [ne ' ' (by decide), ne '\t' (by decide), ne '\n' (by decide), ne '\r' (by decide),
      ne '\x0b' (by decide), ne '\x0c' (by decide)]
  · simpa using ne '_' (by decide)
  · simpa using ne '+' (by decide)
  · simpa using ne '-' (by decide)
  · simpa using ne ':' (by decide)

theorem dropWhile_space_dec : ∀ (l : List Char), (∀ c ∈ l, isDec c = true) → l.dropWhile isPySpace = l
  | [], _ => rfl
  | c :: r, h => by
    have := (isDec_facts c (h c List.mem_cons_self)).1
    simp [List.dropWhile, this]

theorem stripSpace_dec (l : List Char) (h : ∀ c ∈ l, isDec c = true) : stripSpace l = l := by
  unfold stripSpace
  rw [dropWhile_space_dec l h, dropWhile_space_dec l.reverse (fun c hc => h c (List.mem_reverse.mp hc))]
  simp

theorem dropBasePrefix_ten (l : List Char) : dropBasePrefix 10 l = l := by
  unfold dropBasePrefix
  split
  · simp
  · rfl

theorem sign_match (c : Char) (r : List Char) (hminus : c ≠ '-') (hplus : c ≠ '+') :
    (match c :: r with
      | '-' :: r => (true, r)
      | '+' :: r => (false, r)
      | r => (false, r)) = (false, c :: r) := by
  split
  · rename_i heq; simp only [List.cons.injEq] at heq; exact absurd heq.1 hminus
  · rename_i heq; simp only [List.cons.injEq] at heq; exact absurd heq.1 hplus
  · rfl

theorem pyInt_dec (c : Char) (r : List Char) (n : Nat) (h : ∀ x ∈ c :: r, isDec x = true)
    (hv : digitsVal 10 (c :: r) 0 = some n) : pyInt 10 (c :: r) = some (n : Int) := by
  have hc := isDec_facts c (h c List.mem_cons_self)
  have hminus : c ≠ '-' := by intro e; have := hc.2.2.2.1; simp [e] at this
  have hplus : c ≠ '+' := by intro e; have := hc.2.2.1; simp [e] at this
  unfold pyInt
  rw [stripSpace_dec _ h]
  simp [hminus, hplus, dropBasePrefix_ten, hv]

/-- `construct_yaml_int(str(n))` for a natural number -/
theorem constructInt_nat (n : Nat) : constructInt (toString n) = some (n : Int) := by
  have hl : (toString n).toList = Nat.toDigits 10 n := by
    rw [Nat.toString_eq_repr]; exact Nat.toList_repr
  have hdec := toDigits_isDec n
  have hfilter : (Nat.toDigits 10 n).filter (· != '_') = Nat.toDigits 10 n := by
    apply List.filter_eq_self.mpr
    intro c hc
    have := (isDec_facts c (hdec c hc)).2.1
    simp at this ⊢
    exact this
  unfold constructInt
  simp only [hl, hfilter]
  cases hd : Nat.toDigits 10 n with
  | nil => exact absurd hd Nat.toDigits_ne_nil
  | cons c r =>
    have hc := isDec_facts c (hdec c (hd ▸ List.mem_cons_self))
    have hval := digitsVal_toDigits n
    rw [hd] at hval
    have hall : ∀ x ∈ c :: r, isDec x = true := fun x hx => hdec x (hd ▸ hx)
    simp only [hc.2.2.1, hc.2.2.2.1, Bool.or_self, Bool.false_eq_true, if_false]
    by_cases hz : (c :: r) = ['0']
    · -- the numeral "0"
      have : n = 0 := by
        rw [hz] at hval
        simp [digitsVal, digitVal] at hval
        omega
      subst this
      simp [hz]
    · have hne : ((c :: r) == ['0']) = false := by
        cases hb : ((c :: r) == ['0'])
        · rfl
        · exact absurd (by simpa using hb) hz
      simp only [hne, Bool.false_eq_true, if_false]
      have hpos : 0 < n := by
        cases n with
        | zero => rw [Nat.toDigits_zero] at hd; exact absurd hd.symm hz
        | succ k => omega
      have hc0 : c ≠ '0' := head_toDigits_ne_zero n hpos c r hd
      have hcolon : (c :: r).contains ':' = false := by
        apply Bool.eq_false_iff.mpr
        intro hcon
        have hmem : ':' ∈ c :: r := by simpa using hcon
        have := (isDec_facts ':' (hall ':' hmem)).2.2.2.2.1
        simp at this
      split
      · rename_i heq; simp only [List.cons.injEq] at heq; exact absurd heq.1 hc0
      · rename_i heq; simp only [List.cons.injEq] at heq; exact absurd heq.1 hc0
      · rename_i heq; simp only [List.cons.injEq] at heq; exact absurd heq.1 hc0
      · rename_i heq; cases heq
      · simp only [hcolon, Bool.false_eq_true, if_false, pyInt_dec c r n hall hval]
        simp

/-- `construct_yaml_int(str(i))` for every integer: what `represent_int` writes is read back as `i` -/
theorem constructInt_int : ∀ (i : Int), constructInt (toString i) = some i
  | .ofNat n => by
    have : toString (Int.ofNat n) = toString n := by
      show Int.repr (Int.ofNat n) = toString n
      simp [Int.repr, Nat.toString_eq_repr]
    rw [this]; exact constructInt_nat n
  | .negSucc m => by
    have hs : (toString (Int.negSucc m)).toList = '-' :: Nat.toDigits 10 (m + 1) := by
      show (Int.repr (Int.negSucc m)).toList = _
      simp [Int.repr, String.toList_append, Nat.toList_repr]
    have hdec := toDigits_isDec (m + 1)
    have hfilter : ('-' :: Nat.toDigits 10 (m + 1)).filter (· != '_') = '-' :: Nat.toDigits 10 (m + 1) := by
      apply List.filter_eq_self.mpr
      intro c hc
      rcases List.mem_cons.mp hc with rfl | hc
      · decide
      · have := (isDec_facts c (hdec c hc)).2.1
        simp at this ⊢
        exact this
    unfold constructInt
    simp only [hs, hfilter]
    cases hd : Nat.toDigits 10 (m + 1) with
    | nil => exact absurd hd Nat.toDigits_ne_nil
    | cons c r =>
      have hval := digitsVal_toDigits (m + 1)
      rw [hd] at hval
      have hall : ∀ x ∈ c :: r, isDec x = true := fun x hx => hdec x (hd ▸ hx)
      have hc0 : c ≠ '0' := head_toDigits_ne_zero (m + 1) (by omega) c r hd
      have hne : ((c :: r) == ['0']) = false := by
        cases hb : ((c :: r) == ['0'])
        · rfl
        · have : c :: r = ['0'] := by simpa using hb
          simp only [List.cons.injEq] at this
          exact absurd this.1 hc0
      have hcolon : (c :: r).contains ':' = false := by
        apply Bool.eq_false_iff.mpr
        intro hcon
        have hmem : ':' ∈ c :: r := by simpa using hcon
        have := (isDec_facts ':' (hall ':' hmem)).2.2.2.2.1
        simp at this
      simp only [List.tail_cons]
      have hdash : (('-' : Char) == '+' || ('-' : Char) == '-') = true := by decide
      simp only [hdash, if_true, hne, Bool.false_eq_true, if_false]
      split
      · rename_i heq; simp only [List.cons.injEq] at heq; exact absurd heq.1 hc0
      · rename_i heq; simp only [List.cons.injEq] at heq; exact absurd heq.1 hc0
      · rename_i heq; simp only [List.cons.injEq] at heq; exact absurd heq.1 hc0
      · rename_i heq; cases heq
      · simp only [hcolon, Bool.false_eq_true, if_false, pyInt_dec c r (m + 1) hall hval]
        simp [Int.negSucc_eq]

end YatimlModel
