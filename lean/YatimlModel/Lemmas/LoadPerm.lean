import YatimlModel.Lemmas.RecPerm
import YatimlModel.Model.Load
/-!
Lifting order independence from recognition to the whole load: with the same classes registered in a
different order, a load that succeeds gives the same value, the same constructor calls and the same
savorize trace; a load that fails, fails.
-/
namespace YatimlModel
open NodeOps

/-- same failure status; equal when successful -/
def ERel {α : Type} (r r' : Except LoadErr α) : Prop :=
  (∃ e e', r = .error e ∧ r' = .error e') ∨ r = r'

theorem ERel.refl {α : Type} (r : Except LoadErr α) : ERel r r := Or.inr rfl

theorem ERel.cases {α : Type} {r r' : Except LoadErr α} (h : ERel r r') :
    (∃ e e', r = .error e ∧ r' = .error e') ∨ (∃ a, r = .ok a ∧ r' = .ok a) := by
  rcases h with h | h
  · exact Or.inl h
  · subst h
    cases r with
    | error e => exact Or.inl ⟨e, e, rfl, rfl⟩
    | ok a => exact Or.inr ⟨a, rfl, rfl⟩

theorem savorize_perm (env env' : Env) (h : EnvPerm env env') :
    ∀ (fuel : Nat) (n : Node) (d : ClassDef), savorize env' fuel n d = savorize env fuel n d := by
  intro fuel
  induction fuel with
  | zero => intro n d; rfl
  | succ fuel ih =>
    intro n d
    simp only [savorize]
    have hb : d.bases.filterMap (fun b => env'.find b) = d.bases.filterMap (fun b => env.find b) := by
      congr 1; funext b; exact h.find_eq b
    rw [hb]
    congr 2
    funext acc b
    cases acc with
    | error e => rfl
    | ok p => obtain ⟨n', tr⟩ := p; simp only [ih]

theorem savStep_perm (env env' : Env) (h : EnvPerm env env') (fuel : Nat) (n : Node) (R : Ty) :
    savStep env' fuel n R = savStep env fuel n R := by
  unfold savStep
  cases R <;> try rfl
  rename_i c
  simp only [h.find_eq, savorize_perm env env' h]

theorem typeToTag_perm (env env' : Env) (h : EnvPerm env env') (R : Ty) : typeToTag env' R = typeToTag env R := by
  cases R <;> simp [typeToTag, h.isRegistered_eq]

theorem tagStep_perm (env env' : Env) (h : EnvPerm env env') (tbl : List Entry) (R : Ty) (n3 : Node)
    (tr : List String) : tagStep env' tbl R n3 tr = tagStep env tbl R n3 tr := by
  unfold tagStep
  rw [typeToTag_perm env env' h]

theorem procItems_rel (proc proc' : Node → Ty → ProcRes) (hp : ∀ x U, ERel (proc x U) (proc' x U)) (T : Ty) :
    ∀ xs, ERel (procItems proc T xs) (procItems proc' T xs) := by
  intro xs
  induction xs with
  | nil => exact ERel.refl _
  | cons x rest ih =>
    unfold procItems
    rcases (hp x T).cases with ⟨e, e', h1, h2⟩ | ⟨o, h1, h2⟩
    · rw [h1, h2]; exact Or.inl ⟨_, _, rfl, rfl⟩
    · rw [h1, h2]
      rcases ih.cases with ⟨e, e', g1, g2⟩ | ⟨a, g1, g2⟩
      · rw [g1, g2]; exact Or.inl ⟨_, _, rfl, rfl⟩
      · rw [g1, g2]; exact ERel.refl _

theorem procPairs_rel (proc proc' : Node → Ty → ProcRes) (hp : ∀ x U, ERel (proc x U) (proc' x U)) (K V : Ty) :
    ∀ ps, ERel (procPairs proc K V ps) (procPairs proc' K V ps) := by
  intro ps
  induction ps with
  | nil => exact ERel.refl _
  | cons p rest ih =>
    obtain ⟨k, v⟩ := p
    unfold procPairs
    rcases (hp k K).cases with ⟨e, e', h1, h2⟩ | ⟨ko, h1, h2⟩
    · rw [h1, h2]; exact Or.inl ⟨_, _, rfl, rfl⟩
    · rw [h1, h2]
      rcases (hp v V).cases with ⟨e, e', g1, g2⟩ | ⟨vo, g1, g2⟩
      · rw [g1, g2]; exact Or.inl ⟨_, _, rfl, rfl⟩
      · rw [g1, g2]
        rcases ih.cases with ⟨e, e', f1, f2⟩ | ⟨a, f1, f2⟩
        · rw [f1, f2]; exact Or.inl ⟨_, _, rfl, rfl⟩
        · rw [f1, f2]; exact ERel.refl _

theorem procAttrs_rel (proc proc' : Node → Ty → ProcRes) (hp : ∀ x U, ERel (proc x U) (proc' x U)) :
    ∀ (params : List Param) (n : Node), ERel (procAttrs proc n params) (procAttrs proc' n params) := by
  intro params
  induction params with
  | nil => intro n; exact ERel.refl _
  | cons p rest ih =>
    intro n
    unfold procAttrs
    cases hasAttribute n p.name with
    | error e => exact ERel.refl _
    | ok b =>
      cases b with
      | false => exact ih n
      | true =>
        dsimp only
        cases getAttribute n p.name with
        | error e => exact ERel.refl _
        | ok sub =>
          dsimp only
          rcases (hp sub p.ty).cases with ⟨e, e', h1, h2⟩ | ⟨o, h1, h2⟩
          · rw [h1, h2]; exact Or.inl ⟨_, _, rfl, rfl⟩
          · rw [h1, h2]
            dsimp only
            cases setAttribute n p.name o.node with
            | error e => exact ERel.refl _
            | ok n' =>
              dsimp only
              rcases (ih n').cases with ⟨e, e', g1, g2⟩ | ⟨a, g1, g2⟩
              · rw [g1, g2]; exact Or.inl ⟨_, _, rfl, rfl⟩
              · rw [g1, g2]; exact ERel.refl _

theorem subStep_rel (env env' : Env) (h : EnvPerm env env') (proc proc' : Node → Ty → ProcRes)
    (hp : ∀ x U, ERel (proc x U) (proc' x U)) (R : Ty) (n2 : Node) :
    ERel (subStep env proc R n2) (subStep env' proc' R n2) := by
  unfold subStep
  cases R with
  | seq k item =>
    dsimp only
    cases n2 with
    | seq t xs m =>
      dsimp only
      split
      · exact ERel.refl _
      · rcases (procItems_rel proc proc' hp item xs.toList).cases with ⟨e, e', g1, g2⟩ | ⟨a, g1, g2⟩
        · rw [g1, g2]; exact Or.inl ⟨_, _, rfl, rfl⟩
        · rw [g1, g2]; exact ERel.refl _
    | scalar _ _ _ => exact ERel.refl _
    | map _ _ _ => exact ERel.refl _
  | map k K V =>
    dsimp only
    cases n2 with
    | map t ps m =>
      dsimp only
      split
      · exact ERel.refl _
      · rcases (procPairs_rel proc proc' hp K V ps.toList).cases with ⟨e, e', g1, g2⟩ | ⟨a, g1, g2⟩
        · rw [g1, g2]; exact Or.inl ⟨_, _, rfl, rfl⟩
        · rw [g1, g2]; exact ERel.refl _
    | scalar _ _ _ => exact ERel.refl _
    | seq _ _ _ => exact ERel.refl _
  | cls c =>
    dsimp only
    rw [h.find_eq]
    cases env.find c with
    | none => exact ERel.refl _
    | some d =>
      dsimp only
      split
      · exact procAttrs_rel proc proc' hp d.params n2
      · exact ERel.refl _
  | _ => exact ERel.refl _

/-- **Registration order does not change what processing a node gives.** -/
theorem processNode_perm (env env' : Env) (h : EnvPerm env env') (tbl : List Entry) :
    ∀ (fuel : Nat) (n : Node) (T : Ty), ERel (processNode env tbl fuel n T) (processNode env' tbl fuel n T) := by
  intro fuel
  induction fuel with
  | zero => intro n T; exact ERel.refl _
  | succ fuel ih =>
    intro n T
    simp only [processNode]
    have hr := recognizeReq_perm env env' h (fuel + 1) n (.ty T)
    have n1 := recognizeReq_nodup env (fuel + 1) n (.ty T)
    have n2 := recognizeReq_nodup env' (fuel + 1) n (.ty T)
    unfold recognize
    rcases rrel_cases hr with ⟨e, e', h1, h2⟩ | ⟨ts, ls, ts', ls', h1, h2, hs⟩
    · rw [h1, h2]; exact Or.inl ⟨_, _, rfl, rfl⟩
    · rw [h1] at n1
      rw [h2] at n2
      rw [h1, h2]
      dsimp only
      have hl := sameSet_len hs n1 n2
      cases ts with
      | nil =>
        have : ts' = [] := (sameSet_nil_iff hs).mp rfl
        subst this
        exact Or.inl ⟨_, _, rfl, rfl⟩
      | cons R rest =>
        cases rest with
        | nil =>
          have hm : R ∈ ts' := (hs R).mp List.mem_cons_self
          cases ts' with
          | nil => cases hm
          | cons R' rest' =>
            cases rest' with
            | cons _ _ => simp at hl
            | nil =>
              simp only [List.mem_singleton] at hm
              subst hm
              dsimp only
              rw [savStep_perm env env' h]
              cases savStep env (fuel + 1) n R with
              | error e => exact ERel.refl _
              | ok p =>
                obtain ⟨n2', tr⟩ := p
                dsimp only
                rcases (subStep_rel env env' h _ _ ih R n2').cases with ⟨e, e', g1, g2⟩ | ⟨a, g1, g2⟩
                · rw [g1, g2]; exact Or.inl ⟨_, _, rfl, rfl⟩
                · rw [g1, g2]
                  obtain ⟨n3, tr'⟩ := a
                  dsimp only
                  rw [tagStep_perm env env' h]
                  exact ERel.refl _
        | cons R2 rest2 =>
          cases ts' with
          | nil => simp at hl
          | cons a r =>
            cases r with
            | nil => simp at hl
            | cons b r' => exact Or.inl ⟨_, _, rfl, rfl⟩

/-! ### construction looks classes up by name only -/

theorem isInstanceOf_perm (env env' : Env) (h : EnvPerm env env') (v : PyVal) (c : String) :
    isInstanceOf env' v c = isInstanceOf env v c := by
  unfold isInstanceOf
  simp only [h.find_eq]

theorem keyMatches_perm (env env' : Env) (h : EnvPerm env env') (v : PyVal) (t : Ty) :
    keyMatches env' v t = keyMatches env v t := by
  cases t <;> simp [keyMatches, isInstanceOf_perm env env' h]

mutual
theorem typeMatches_perm (env env' : Env) (h : EnvPerm env env') :
    ∀ (v : PyVal) (t : Ty), typeMatches env' v t = typeMatches env v t
  | v, .union ms => by simp only [typeMatches]; exact typeMatchesAny_perm env env' h v ms
  | v, .seq _ item => by
    cases v <;> simp only [typeMatches]
    rename_i xs; exact typeMatchesAll_perm env env' h xs item
  | v, .map _ k val => by
    cases v <;> simp only [typeMatches]
    rename_i kvs; exact typeMatchesKVs_perm env env' h kvs k val
  | v, .boolFix => by unfold typeMatches; rfl
  | v, .any => by unfold typeMatches; rfl
  | v, .str => by unfold typeMatches; rfl
  | v, .int => by unfold typeMatches; rfl
  | v, .float => by unfold typeMatches; rfl
  | v, .bool => by unfold typeMatches; rfl
  | v, .null => by unfold typeMatches; rfl
  | v, .date => by unfold typeMatches; rfl
  | v, .path => by unfold typeMatches; rfl
  | v, .cls c => by simp only [typeMatches]; exact isInstanceOf_perm env env' h v c
theorem typeMatchesAny_perm (env env' : Env) (h : EnvPerm env env') :
    ∀ (v : PyVal) (ts : Tys), typeMatchesAny env' v ts = typeMatchesAny env v ts
  | _, .nil => by simp [typeMatchesAny]
  | v, .cons t ts => by
    simp only [typeMatchesAny]
    rw [typeMatches_perm env env' h v t, typeMatchesAny_perm env env' h v ts]
theorem typeMatchesAll_perm (env env' : Env) (h : EnvPerm env env') :
    ∀ (xs : PyVals) (t : Ty), typeMatchesAll env' xs t = typeMatchesAll env xs t
  | .nil, _ => by simp [typeMatchesAll]
  | .cons x xs, t => by
    simp only [typeMatchesAll]
    rw [typeMatches_perm env env' h x t, typeMatchesAll_perm env env' h xs t]
theorem typeMatchesKVs_perm (env env' : Env) (h : EnvPerm env env') :
    ∀ (kvs : PyKVs) (kt vt : Ty), typeMatchesKVs env' kvs kt vt = typeMatchesKVs env kvs kt vt
  | .nil, _, _ => by simp [typeMatchesKVs]
  | .cons k v r, kt, vt => by
    simp only [typeMatchesKVs]
    rw [keyMatches_perm env env' h, typeMatches_perm env env' h v vt, typeMatchesKVs_perm env env' h r kt vt]
end

theorem checkAttributes_perm (env env' : Env) (h : EnvPerm env env') (d : ClassDef) (n : Node)
    (ps : List (Node × Node)) (mapping : List (PyVal × PyVal)) :
    checkAttributes env' d n ps mapping = checkAttributes env d n ps mapping := by
  unfold checkAttributes
  simp only [typeMatches_perm env env' h]

theorem construct_perm (env env' : Env) (h : EnvPerm env env') (tbl : List Entry) :
    ∀ (fuel : Nat) (n : Node), construct env' tbl fuel n = construct env tbl fuel n := by
  intro fuel
  induction fuel with
  | zero => intro n; rfl
  | succ fuel ih =>
    intro n
    have hfun : construct env' tbl fuel = construct env tbl fuel := funext ih
    simp only [construct, hfun, h.byTag_eq, h.ext, checkAttributes_perm env env' h]

/-- **Registration order does not change the outcome of a load**: the same value, constructor calls,
savorize trace and processed tree when it succeeds; a failure when it fails. -/
theorem loadNode_perm (env env' : Env) (h : EnvPerm env env') (tbl : List Entry) (fuel : Nat) (n : Node) (T : Ty) :
    (∃ f f', loadNode env tbl fuel n T = .error f ∧ loadNode env' tbl fuel n T = .error f') ∨
    loadNode env tbl fuel n T = loadNode env' tbl fuel n T := by
  unfold loadNode
  rcases (processNode_perm env env' h tbl fuel n T).cases with ⟨e, e', h1, h2⟩ | ⟨p, h1, h2⟩
  · rw [h1, h2]; exact Or.inl ⟨_, _, rfl, rfl⟩
  · rw [h1, h2]
    dsimp only
    rw [construct_perm env env' h]
    exact Or.inr rfl

end YatimlModel
