import YatimlModel.Lemmas.RegistrySafe
/-!
Histories of creating and calling functions: when the checker accepts the programs, the shared base
never changes and every function's own region is what its factory built from the untouched base —
whatever else happened before, between and after.
-/
namespace YatimlModel.Reg

/-- the create operations of a history, in order -/
def creates : List Op → List (Name × List Nat)
  | [] => []
  | .create k cs :: rest => (k, cs) :: creates rest
  | .call _ _ :: rest => creates rest

theorem creates_append (a b : List Op) : creates (a ++ b) = creates a ++ creates b := by
  induction a with
  | nil => rfl
  | cons op rest ih => cases op <;> simp [creates, ih]

/-- the function a `create kind cs` gives when nothing else ever happened -/
def Progs.isolated (P : Progs) (c : Name × List Nat) : Fn := P.fnOf c.1 (P.create P.base c.1 c.2)

def opValid (P : Progs) : Op → Prop
  | .create k _ => k ∈ P.kinds
  | .call _ _ => True

structure Inv (P : Progs) (w : World) (cr : List (Name × List Nat)) : Prop where
  bad : w.bad = false
  base : w.base = P.base
  fns : w.fns = cr.map P.isolated
  kinds : ∀ c ∈ cr, c.1 ∈ P.kinds

theorem st0_space (P : Progs) (base fn : List Obj) (lvl : Nat) (env : List (Name × V)) :
    (P.st0 base fn lvl env).space 0 = base ∧ (P.st0 base fn lvl env).space 1 = fn := by
  simp [Progs.st0, St.space]

theorem create_ok (P : Progs) (hc : P.check = true) (k : Name) (hk : k ∈ P.kinds) (cs : List Nat) :
    (P.create P.base k cs).ok = true ∧
    ∀ ds, (P.doCall P.base (P.fnOf k (P.create P.base k cs)) ds).ok = true := by
  have h1 : P.checkKind k = true := by
    unfold Progs.check at hc
    exact List.all_eq_true.mp hc k hk
  unfold Progs.checkKind at h1
  split at h1
  · cases h1
  · rename_i fs hfs
    have hmem := explore_sound _ _ fs hfs cs
    have := List.all_eq_true.mp h1 _ hmem
    simp only [Bool.and_eq_true] at this
    refine ⟨this.1, ?_⟩
    intro ds
    have h2 := this.2
    split at h2
    · cases h2
    · rename_i gs hgs
      have hm2 := explore_sound _ _ gs hgs ds
      exact List.all_eq_true.mp h2 _ hm2

theorem step_inv (P : Progs) (hc : P.check = true) (w : World) (cr : List (Name × List Nat))
    (hi : Inv P w cr) (op : Op) (hv : opValid P op) : Inv P (P.step w op) (cr ++ creates [op]) := by
  cases op with
  | create k cs =>
    have hk : k ∈ P.kinds := hv
    have hok := (create_ok P hc k hk cs).1
    have hsp : (P.create P.base k cs).space 0 = P.base := by
      have := runProg_frame (P.factory k) cs (P.st0 P.base [] 1 P.env) hok 0 (by simp [Progs.st0])
      rw [(st0_space P P.base [] 1 P.env).1] at this
      exact this
    simp only [Progs.step, creates]
    rw [hi.base]
    refine ⟨?_, hsp, ?_, ?_⟩
    · simp [hi.bad, hok]
    · simp [hi.fns, Progs.isolated]
    · intro c hcm
      rcases List.mem_append.mp hcm with h | h
      · exact hi.kinds c h
      · simp at h; subst h; exact hk
  | call k ds =>
    simp only [Progs.step, creates, List.append_nil]
    split
    · exact hi
    · rename_i f hf
      rw [hi.fns, List.getElem?_map] at hf
      cases hcr : cr[k]? with
      | none => rw [hcr] at hf; cases hf
      | some c =>
        rw [hcr] at hf
        simp only [Option.map_some, Option.some.injEq] at hf
        have hck : c.1 ∈ P.kinds := hi.kinds c (List.mem_of_getElem? hcr)
        have hok : (P.doCall P.base f ds).ok = true := by
          rw [← hf]
          exact (create_ok P hc c.1 hck c.2).2 ds
        have hframe := runProg_frame (P.call f.kind) ds (P.callSt P.base f) hok
        have h0 : (P.doCall P.base f ds).space 0 = P.base := by
          have := hframe 0 (by simp [Progs.callSt, Progs.st0])
          unfold Progs.callSt at this
          rw [(st0_space P P.base f.region 2 _).1] at this
          exact this
        have h1 : (P.doCall P.base f ds).space 1 = f.region := by
          have := hframe 1 (by simp [Progs.callSt, Progs.st0])
          unfold Progs.callSt at this
          rw [(st0_space P P.base f.region 2 _).2] at this
          exact this
        rw [hi.base]
        refine ⟨?_, h0, ?_, hi.kinds⟩
        · simp [hi.bad, hok]
        · rw [h1]
          have hff : ({ f with region := f.region } : Fn) = f := rfl
          rw [hff, hi.fns]
          apply List.ext_getElem?
          intro j
          rw [List.getElem?_set]
          split
          · rename_i hkj
            subst hkj
            rw [List.getElem?_map, hcr]
            have hlt : k < cr.length := (List.getElem?_eq_some_iff.mp hcr).1
            simp [hf, hlt]
          · rfl

theorem run_inv (P : Progs) (hc : P.check = true) : ∀ (ops : List Op) (w : World)
    (cr : List (Name × List Nat)), Inv P w cr → (∀ op ∈ ops, opValid P op) →
    Inv P (P.run w ops) (cr ++ creates ops)
  | [], w, cr, hi, _ => by simpa [Progs.run, creates] using hi
  | op :: rest, w, cr, hi, hv => by
    have h1 := step_inv P hc w cr hi op (hv op (List.mem_cons_self))
    have h2 := run_inv P hc rest (P.step w op) _ h1 (fun o ho => hv o (List.mem_cons_of_mem _ ho))
    have : creates (op :: rest) = creates [op] ++ creates rest := by
      have := creates_append [op] rest
      simpa using this
    rw [this, ← List.append_assoc]
    simpa [Progs.run] using h2

theorem inv0 (P : Progs) : Inv P P.world0 [] :=
  ⟨rfl, rfl, rfl, fun _ h => by cases h⟩

end YatimlModel.Reg
