import YatimlModel.Lemmas.IntText
import YatimlModel.Lemmas.JsonParse
import YatimlModel.Lemmas.RegexLang
/-!
`str(i)` of every integer is a JSON number text: non-empty, number characters only, in the language of
RFC 8259's `number` (decimal digits without a leading zero, an optional minus sign) — from core's
`Nat.toDigits` lemmas, no bound on the integer.
-/
namespace YatimlModel.JsonParse
open YatimlModel YatimlModel.Re

theorem lang_star_set_of_all (cs : CSet) : ∀ l : List Nat, (∀ c ∈ l, cs.mem c = true) →
    Lang (star (Re.set cs)) l
  | [], _ => Lang.starNil
  | c :: l, h => by
    have := Lang.starCons (a := Re.set cs) (s := [c]) (t := l) (Lang.set (h c (by simp)))
      (lang_star_set_of_all cs l (fun d hd => h d (by simp [hd])))
    simpa using this

theorem isDec_toNat (c : Char) (h : isDec c = true) : 48 ≤ c.toNat ∧ c.toNat ≤ 57 := by
  unfold isDec Char.isDigit at h
  simp only [Bool.and_eq_true, decide_eq_true_eq] at h
  have h1 : 48 ≤ c.val.toNat := by
    have := h.1; simpa [UInt32.le_iff_toNat_le] using this
  have h2 : c.val.toNat ≤ 57 := by
    have := h.2; simpa [UInt32.le_iff_toNat_le] using this
  exact ⟨h1, h2⟩

theorem mem_range (lo hi c : Nat) (h1 : lo ≤ c) (h2 : c ≤ hi) : CSet.mem [(lo, hi)] c = true := by
  simp [CSet.mem, h1, h2]

/-- the integer part of RFC 8259's `number` -/
def intPartRe : Re := alt (ch '0') (cat (rng '1' '9') (star (rng '0' '9')))

theorem nat_digits_lang (n : Nat) : Lang intPartRe ((Nat.toDigits 10 n).map Char.toNat) := by
  have hdec := toDigits_isDec n
  cases hd : Nat.toDigits 10 n with
  | nil => exact absurd hd Nat.toDigits_ne_nil
  | cons c r =>
    have hall : ∀ x ∈ c :: r, isDec x = true := fun x hx => hdec x (hd ▸ hx)
    by_cases hn : n = 0
    · subst hn
      have : Nat.toDigits 10 0 = ['0'] := by decide
      rw [this] at hd
      cases hd
      exact Lang.altL (Lang.set (by decide))
    · have hc0 : c ≠ '0' := head_toDigits_ne_zero n (by omega) c r hd
      obtain ⟨h1, h2⟩ := isDec_toNat c (hall c (by simp))
      have h49 : 49 ≤ c.toNat := by
        rcases Nat.lt_or_ge 48 c.toNat with h | h
        · exact h
        · exfalso
          apply hc0
          apply Char.ext
          apply UInt32.toNat_inj.mp
          show c.val.toNat = 48
          exact Nat.le_antisymm h h1
      have hr : ∀ x ∈ r.map Char.toNat, CSet.mem [('0'.toNat, '9'.toNat)] x = true := by
        intro x hx
        obtain ⟨y, hy, rfl⟩ := List.mem_map.mp hx
        obtain ⟨a, b⟩ := isDec_toNat y (hall y (by simp [hy]))
        exact mem_range _ _ _ a b
      have := Lang.cat (a := rng '1' '9') (b := star (rng '0' '9')) (s := [c.toNat]) (t := r.map Char.toNat)
        (Lang.set (mem_range _ _ _ h49 h2)) (lang_star_set_of_all _ _ hr)
      exact Lang.altR (by simpa using this)

theorem numberRe_of_int_part (sgn ds : List Nat) (hs : Lang (opt (ch '-')) sgn) (hd : Lang intPartRe ds) :
    Lang numberRe (sgn ++ ds) := by
  have e1 : Lang (opt (cat (ch '.') (plus (rng '0' '9')))) [] := Lang.altL Lang.eps
  have e2 : Lang (opt (cat (Re.set [('E'.toNat, 'E'.toNat), ('e'.toNat, 'e'.toNat)])
      (cat (opt (Re.set [('+'.toNat, '+'.toNat), ('-'.toNat, '-'.toNat)])) (plus (rng '0' '9'))))) [] :=
    Lang.altL Lang.eps
  have t1 := Lang.cat e1 e2
  have t2 := Lang.cat hd t1
  have t3 := Lang.cat hs t2
  simpa [numberRe, intPartRe] using t3

theorem nat_numChars (n : Nat) : ∀ c ∈ (Nat.toDigits 10 n).map Char.toNat, isNumChar c = true := by
  intro c hc
  obtain ⟨y, hy, rfl⟩ := List.mem_map.mp hc
  obtain ⟨a, b⟩ := isDec_toNat y (toDigits_isDec n y hy)
  simp [isNumChar, a, b]

/-- **Every integer's decimal text is a JSON number text.** -/
theorem int_numText : ∀ (i : Int), NumText (codes (toString i))
  | .ofNat n => by
    have hc : codes (toString (Int.ofNat n)) = (Nat.toDigits 10 n).map Char.toNat := by
      show (Int.repr (Int.ofNat n)).toList.map Char.toNat = _
      simp [Int.repr, Nat.toList_repr]
    rw [hc]
    refine ⟨?_, nat_numChars n, ?_⟩
    · intro h
      have := List.map_eq_nil_iff.mp h
      exact Nat.toDigits_ne_nil this
    · apply (rmatch_iff_lang _ _).mpr
      have := numberRe_of_int_part [] _ (Lang.altL Lang.eps) (nat_digits_lang n)
      simpa using this
  | .negSucc m => by
    have hc : codes (toString (Int.negSucc m)) = 45 :: (Nat.toDigits 10 (m + 1)).map Char.toNat := by
      show (Int.repr (Int.negSucc m)).toList.map Char.toNat = _
      simp [Int.repr, String.toList_append, Nat.toList_repr]
    rw [hc]
    refine ⟨by simp, ?_, ?_⟩
    · intro c hc'
      rcases List.mem_cons.mp hc' with rfl | h
      · decide
      · exact nat_numChars (m + 1) c h
    · apply (rmatch_iff_lang _ _).mpr
      have := numberRe_of_int_part [45] _ (Lang.altR (Lang.set (by decide))) (nat_digits_lang (m + 1))
      simpa using this

end YatimlModel.JsonParse
