import YatimlModel.Lemmas.PlainData
import YatimlModel.Lemmas.AttrOps
import YatimlModel.Lemmas.RecSound
import YatimlModel.Model.Load
/-!
Node-level round trip (C05): a node tree that *faithfully describes* a value `v` for a declared type `T`
loads to exactly `v`.

`RT env tbl fuel T v n` ("n is a faithful description of v for T") is defined by recursion on the fuel
the loader has at that node.  It says, at every node of the tree,

* recognition against the declared type singles out exactly one type `R` (the *unambiguity* of the class
  model for this value — a hypothesis, checked per node by the recogniser itself), and
* the node has the shape the representers give a value of that kind (`RTcore`): scalars carry the core
  tag of their kind and a text the scalar constructor reads back as the value; lists and dicts are
  `!!seq` / `!!map` nodes described element-wise, keys distinct; an enum member is its name; a
  string-like its text; a user object is a mapping of its constructor parameters (each described for the
  parameter's declared type, each conforming to it) followed by the extra attributes (plain data).

`RT_load`: then `loadNode` returns `v` — recognition, savorizing, attribute processing, tag stripping,
PyYAML's mapping construction, the attribute checks and the constructor call compose to the identity.
The text layer (emitter / scanner) is outside the statement: see DESIGN.md.
-/
namespace YatimlModel
open NodeOps

inductive All2 {α β : Type} (r : α → β → Prop) : List α → List β → Prop
  | nil : All2 r [] []
  | cons {a : α} {b : β} {as : List α} {bs : List β} : r a b → All2 r as bs → All2 r (a :: as) (b :: bs)

theorem All2.imp {α β : Type} {r s : α → β → Prop} (h : ∀ a b, r a b → s a b) :
    ∀ {as : List α} {bs : List β}, All2 r as bs → All2 s as bs
  | _, _, .nil => .nil
  | _, _, .cons hab t => .cons (h _ _ hab) (All2.imp h t)

/-- the keyword-argument entry of one attribute -/
def strKey (s : String) : PyVal := .scalar (.str s)

/-- dict keys as PyYAML builds them: hashable and pairwise different -/
def KeysOk (l : List (PyVal × PyVal)) : Prop :=
  (∀ e ∈ l, hashable e.1 = true) ∧ l.Pairwise (fun a b => keyEq a.1 b.1 = false)

/-- the description of the attributes of a user object of class `d`:
`mainKw` / `mainPs` the constructor parameters given (keyword arguments and mapping pairs, same order),
`extraKw` / `extraPs` the extra attributes -/
structure ObjOK (env : Env) (tbl : List Entry) (fuel : Nat) (rt : Ty → PyVal → Node → Prop)
    (d : ClassDef) (n : Node) (kw : List (PyVal × PyVal)) (ps : List (Node × Node))
    (mainKw extraKw : List (PyVal × PyVal)) (mainPs extraPs : List (Node × Node)) : Prop where
  /-- the class's savorize hooks (its registered bases' first) leave this node as it is -/
  sav : savorize env (fuel + 1) n d = .ok (n, [])
  psEq : ps = mainPs ++ extraPs
  kwEq : kw = mainKw ++ (if d.takesExtra then [(strKey "_yatiml_extra", .dict (PyKVs.ofList extraKw))] else [])
  noExtra : d.takesExtra = false → extraKw = []
  main : All2 (fun e p => ∃ name mk prm, e.1 = strKey name ∧ p.1 = .scalar tStr name mk ∧ prm ∈ d.params ∧
            prm.name = name ∧ rt prm.ty e.2 p.2 ∧ typeMatches env e.2 prm.ty = true) mainKw mainPs
  extra : All2 (fun e p => ∃ name mk cs, e.1 = strKey name ∧ p.1 = .scalar tStr name mk ∧
            d.argNames.contains name = false ∧ name ≠ "self" ∧
            construct env tbl fuel (stripTags tbl p.2) = .ok ⟨e.2, cs⟩) extraKw extraPs
  /-- all keys of the mapping are different -/
  distinct : (ps.map (fun p => p.1)).Pairwise (fun a b => ∀ s, a.keyIs s = true → b.keyIs s = false)
  required : ∀ prm ∈ d.params, prm.required = true → ∃ e ∈ mainKw, e.1 = strKey prm.name
  paramsNodup : (d.params.map (·.name)).Nodup
  argsParams : ∀ prm ∈ d.params, d.argNames.contains prm.name = true ∧ prm.name ≠ "_yatiml_extra" ∧ prm.name ≠ "self"
  init : d.initRaises (scalarArgs kw) = false

/-- the shape of a node that describes `v`, once recognition has settled on the type `R` -/
inductive RTcore (env : Env) (tbl : List Entry) (fuel : Nat) (rt : Ty → PyVal → Node → Prop) :
    Ty → PyVal → Node → Prop
  | str (s : String) (m : Mark) : RTcore env tbl fuel rt .str (.scalar (.str s)) (.scalar tStr s m)
  | int (i : Int) (s : String) (m : Mark) : constructInt s = some i →
      RTcore env tbl fuel rt .int (.scalar (.int i)) (.scalar tInt s m)
  | float (r : String) (i : Option Int) (s : String) (m : Mark) : env.ext.yamlFloat s = some (r, i) →
      RTcore env tbl fuel rt .float (.scalar (.float r i)) (.scalar tFloat s m)
  | bool (b : Bool) (s : String) (m : Mark) : constructBool s = some b →
      RTcore env tbl fuel rt .bool (.scalar (.bool b)) (.scalar tBool s m)
  | boolFix (b : Bool) (s : String) (m : Mark) : constructBool s = some b →
      RTcore env tbl fuel rt .boolFix (.scalar (.bool b)) (.scalar tBool s m)
  | null (s : String) (m : Mark) : RTcore env tbl fuel rt .null (.scalar .none) (.scalar tNull s m)
  | date (r s : String) (m : Mark) : env.ext.yamlTimestamp s = some r →
      RTcore env tbl fuel rt .date (.date r) (.scalar tTimestamp s m)
  | path (s : String) (m : Mark) : env.find "Path" = none →
      RTcore env tbl fuel rt .path (.path s) (.scalar tStr s m)
  | seq (k : SeqKind) (item : Ty) (xs : PyVals) (ns : Nodes) (m : Mark) :
      All2 (rt item) xs.toList ns.toList →
      RTcore env tbl fuel rt (.seq k item) (.list xs) (.seq tSeq ns m)
  | map (k : MapKind) (K V : Ty) (kvs : PyKVs) (ps : Pairs) (m : Mark) :
      All2 (fun e p => rt K e.1 p.1 ∧ rt V e.2 p.2) kvs.toList ps.toList →
      KeysOk kvs.toList → keyTypeOk env K = true →
      RTcore env tbl fuel rt (.map k K V) (.dict kvs) (.map tMap ps m)
  | enum (c name : String) (m : Mark) (d : ClassDef) (members : List String) :
      env.find c = some d → d.kind = .enum members → members.contains name = true →
      savorize env (fuel + 1) (.scalar tStr name m) d = .ok (.scalar tStr name m, []) →
      RTcore env tbl fuel rt (.cls c) (.enumMember c name) (.scalar tStr name m)
  | userStr (c s : String) (m : Mark) (d : ClassDef) :
      env.find c = some d → d.kind = .stringLike → d.initRaises [("", .str s)] = false →
      savorize env (fuel + 1) (.scalar tStr s m) d = .ok (.scalar tStr s m, []) →
      RTcore env tbl fuel rt (.cls c) (.userStr c s) (.scalar tStr s m)
  | obj (c : String) (kw : PyKVs) (ps : Pairs) (m : Mark) (d : ClassDef)
      (mainKw extraKw : List (PyVal × PyVal)) (mainPs extraPs : List (Node × Node)) :
      env.find c = some d → d.kind = .plain →
      ObjOK env tbl fuel rt d (.map tMap ps m) kw.toList ps.toList mainKw extraKw mainPs extraPs →
      RTcore env tbl fuel rt (.cls c) (.obj c kw) (.map tMap ps m)
  | any (v : PyVal) (n : Node) (cs : List Call) :
      construct env tbl (fuel + 1) (stripTags tbl n) = .ok ⟨v, cs⟩ →
      RTcore env tbl fuel rt .any v n

/-- `n` is a faithful description of `v` for the declared type `T`, for a loader with this much fuel -/
def RT (env : Env) (tbl : List Entry) : Nat → Ty → PyVal → Node → Prop
  | 0, _, _, _ => False
  | fuel + 1, T, v, n =>
    ∃ R leaves, recognize env (fuel + 1) n T = .ok ([R], leaves) ∧
      RTcore env tbl fuel (RT env tbl fuel) R v n

/-! ### the loader after recognition -/

/-- `__process_node` once recognition has settled on `R`: savorize, recurse, retag -/
def afterRec (env : Env) (tbl : List Entry) (fuel : Nat) (R : Ty) (n : Node) : ProcRes :=
  match savStep env (fuel + 1) n R with
  | .error e => .error e
  | .ok (n2, tr) =>
    match subStep env (processNode env tbl fuel) R n2 with
    | .error e => .error e
    | .ok (n3, tr') => tagStep env tbl R n3 (tr ++ tr')

theorem processNode_of_rec (env : Env) (tbl : List Entry) (fuel : Nat) (n : Node) (T R : Ty) (l : List Leaf)
    (h : recognize env (fuel + 1) n T = .ok ([R], l)) :
    processNode env tbl (fuel + 1) n T = afterRec env tbl fuel R n := by
  unfold processNode afterRec
  rw [h]
  rfl

/-- what the loader does with a described node: the processed tree constructs to the value, and carries
the tag of the recognised type -/
def CoreOut (env : Env) (tbl : List Entry) (fuel : Nat) (R : Ty) (v : PyVal) (n : Node) : Prop :=
  ∃ p cs, afterRec env tbl fuel R n = .ok p ∧ construct env tbl (fuel + 1) p.node = .ok ⟨v, cs⟩ ∧
    (R ≠ .any → typeToTag env R = some p.node.tag)

theorem construct_scalar (env : Env) (tbl : List Entry) (f : Nat) (t s : String) (m : Mark)
    (ht : hasPrefix corePrefix t = true) :
    construct env tbl (f + 1) (.scalar t s m) =
      (match constructScalarCore env.ext t s m with
       | .ok x => .ok ⟨x, []⟩
       | .error e => .error (e, [])) := by
  unfold construct
  simp [Node.tag, byTag_core env t ht, core_ne_path t ht]
  cases constructScalarCore env.ext t s m <;> rfl

theorem afterRec_leaf (env : Env) (tbl : List Entry) (fuel : Nat) (R : Ty) (n : Node) (tag : String)
    (hc : ∀ c, R ≠ .cls c) (hs : ∀ k i, R ≠ .seq k i) (hm : ∀ k a b, R ≠ .map k a b) (ha : R ≠ .any)
    (ht : typeToTag env R = some tag) :
    afterRec env tbl fuel R n = .ok ⟨n.setTag tag, []⟩ := by
  unfold afterRec savStep subStep tagStep
  cases R <;> simp_all

theorem coreOut_scalar (env : Env) (tbl : List Entry) (fuel : Nat) (R : Ty) (v : PyVal) (t s : String) (m : Mark)
    (hc : ∀ c, R ≠ .cls c) (hs : ∀ k i, R ≠ .seq k i) (hm : ∀ k a b, R ≠ .map k a b) (ha : R ≠ .any)
    (ht : typeToTag env R = some t) (hcore : hasPrefix corePrefix t = true)
    (hv : constructScalarCore env.ext t s m = .ok v) :
    CoreOut env tbl fuel R v (.scalar t s m) := by
  refine ⟨⟨(Node.scalar t s m).setTag t, []⟩, [], afterRec_leaf env tbl fuel R _ t hc hs hm ha ht, ?_, ?_⟩
  · simp only [Node.setTag]
    rw [construct_scalar env tbl fuel t s m hcore, hv]
  · intro _; simp [Node.setTag, Node.tag, ht]

/-! ### sequences -/

@[simp] theorem PyVals.ofList_toList : ∀ (l : PyVals), PyVals.ofList l.toList = l
  | .nil => rfl
  | .cons x xs => by simp [PyVals.ofList, PyVals.toList, PyVals.ofList_toList xs]
@[simp] theorem PyKVs.ofList_toList : ∀ (l : PyKVs), PyKVs.ofList l.toList = l
  | .nil => rfl
  | .cons k v r => by simp [PyKVs.ofList, PyKVs.toList, PyKVs.ofList_toList r]
@[simp] theorem PyKVs.toList_ofList : ∀ (l : List (PyVal × PyVal)), (PyKVs.ofList l).toList = l
  | [] => rfl
  | (k, v) :: r => by simp [PyKVs.ofList, PyKVs.toList, PyKVs.toList_ofList r]

theorem procItems_all2 (proc : Node → Ty → ProcRes) (T : Ty) (cons : Node → ConsRes) :
    ∀ (xs : List PyVal) (ns : List Node),
      All2 (fun x n => ∃ p cs, proc n T = .ok p ∧ cons p.node = .ok ⟨x, cs⟩) xs ns →
      ∃ ys tr, procItems proc T ns = .ok (ys, tr) ∧ All2 (fun x y => ∃ cs, cons y = .ok ⟨x, cs⟩) xs ys
  | _, _, .nil => ⟨[], [], rfl, .nil⟩
  | _, _, .cons (a := x) (b := n) (as := xs) (bs := ns) ⟨p, cs, hp, hc⟩ t => by
    obtain ⟨ys, tr, hys, hall⟩ := procItems_all2 proc T cons xs ns t
    refine ⟨p.node :: ys, p.trace ++ tr, ?_, .cons ⟨cs, hc⟩ hall⟩
    simp [procItems, hp, hys]

theorem consItems_all2 (cons : Node → ConsRes) :
    ∀ (xs : List PyVal) (ys : List Node) (calls : List Call),
      All2 (fun x y => ∃ cs, cons y = .ok ⟨x, cs⟩) xs ys →
      ∃ cs', consItems cons ys calls = .ok (xs, cs')
  | _, _, calls, .nil => ⟨calls, rfl⟩
  | _, _, calls, .cons (a := x) (b := y) (as := xs) (bs := ys) ⟨cs, hc⟩ t => by
    obtain ⟨cs', h⟩ := consItems_all2 cons xs ys (calls ++ cs) t
    refine ⟨cs', ?_⟩
    simp [consItems, hc, h]

theorem tSeq_core : hasPrefix corePrefix tSeq = true := by decide
theorem tMap_core : hasPrefix corePrefix tMap = true := by decide
theorem tStr_core : hasPrefix corePrefix tStr = true := by decide

theorem coreOut_seq (env : Env) (tbl : List Entry) (fuel : Nat) (k : SeqKind) (item : Ty)
    (xs : PyVals) (ns : Nodes) (m : Mark)
    (h : All2 (fun x n => ∃ p cs, processNode env tbl fuel n item = .ok p ∧
            construct env tbl fuel p.node = .ok ⟨x, cs⟩) xs.toList ns.toList) :
    CoreOut env tbl fuel (.seq k item) (.list xs) (.seq tSeq ns m) := by
  obtain ⟨ys, tr, hys, hall⟩ := procItems_all2 (fun n T => processNode env tbl fuel n T) item
    (construct env tbl fuel) xs.toList ns.toList h
  obtain ⟨cs', hcons⟩ := consItems_all2 (construct env tbl fuel) xs.toList ys [] hall
  refine ⟨⟨.seq tSeq (Nodes.ofList ys) m, [] ++ tr⟩, cs', ?_, ?_, ?_⟩
  · unfold afterRec savStep subStep tagStep
    simp [hys, typeToTag, Node.setTag]
  · unfold construct
    simp [Node.tag, byTag_core env tSeq tSeq_core, core_ne_path tSeq tSeq_core, hcons]
  · intro _; simp [typeToTag, Node.tag]

/-! ### mappings -/

def NotMergeKey (k : Node) : Prop := (k.tag == tMerge) = false ∧ (k.tag == tValue) = false

theorem procPairs_all2 (proc : Node → Ty → ProcRes) (K V : Ty) (cons : Node → ConsRes) :
    ∀ (kvs : List (PyVal × PyVal)) (ps : List (Node × Node)),
      All2 (fun e p => (∃ pk ck, proc p.1 K = .ok pk ∧ cons pk.node = .ok ⟨e.1, ck⟩ ∧ NotMergeKey pk.node) ∧
                       (∃ pv cv, proc p.2 V = .ok pv ∧ cons pv.node = .ok ⟨e.2, cv⟩)) kvs ps →
      ∃ qs tr, procPairs proc K V ps = .ok (qs, tr) ∧
        All2 (fun e q => (∃ ck, cons q.1 = .ok ⟨e.1, ck⟩) ∧ NotMergeKey q.1 ∧ (∃ cv, cons q.2 = .ok ⟨e.2, cv⟩)) kvs qs
  | _, _, .nil => ⟨[], [], rfl, .nil⟩
  | _, _, .cons (a := e) (b := p) (as := kvs) (bs := ps) ⟨⟨pk, ck, hpk, hck, hnm⟩, ⟨pv, cv, hpv, hcv⟩⟩ t => by
    obtain ⟨qs, tr, hqs, hall⟩ := procPairs_all2 proc K V cons kvs ps t
    obtain ⟨k, v⟩ := p
    refine ⟨(pk.node, pv.node) :: qs, pk.trace ++ pv.trace ++ tr, ?_, .cons ⟨⟨ck, hck⟩, hnm, ⟨cv, hcv⟩⟩ hall⟩
    simp only at hpk hpv
    simp [procPairs, hpk, hpv, hqs]

theorem flattenStep_plain_keys (flat : List (Node × Node) → Option (List (Node × Node))) :
    ∀ (qs : List (Node × Node)), (∀ q ∈ qs, NotMergeKey q.1) → flattenStep flat qs = some ([], qs)
  | [], _ => rfl
  | q :: qs, h => by
    have ih := flattenStep_plain_keys flat qs (fun x hx => h x (List.mem_cons_of_mem _ hx))
    have hq := h q List.mem_cons_self
    unfold flattenStep
    rw [ih]
    simp [hq.1, hq.2]

theorem flattenPairs_plain_keys (fuel : Nat) (qs : List (Node × Node)) (h : ∀ q ∈ qs, NotMergeKey q.1) :
    flattenPairs (fuel + 1) qs = some qs := by
  unfold flattenPairs
  rw [flattenStep_plain_keys _ qs h]
  simp

theorem dictSet_append (acc : List (PyVal × PyVal)) (k v : PyVal)
    (h : ∀ e ∈ acc, keyEq e.1 k = false) : dictSet acc k v = acc ++ [(k, v)] := by
  induction acc with
  | nil => rfl
  | cons e r ih =>
    obtain ⟨k', v'⟩ := e
    have h1 := h (k', v') List.mem_cons_self
    simp only at h1
    simp [dictSet, h1, ih (fun e he => h e (List.mem_cons_of_mem _ he))]

theorem consPairs_all2 (cons : Node → ConsRes) :
    ∀ (kvs : List (PyVal × PyVal)) (qs : List (Node × Node)) (acc : List (PyVal × PyVal)) (calls : List Call),
      All2 (fun e q => (∃ ck, cons q.1 = .ok ⟨e.1, ck⟩) ∧ NotMergeKey q.1 ∧ (∃ cv, cons q.2 = .ok ⟨e.2, cv⟩)) kvs qs →
      (∀ e ∈ kvs, hashable e.1 = true) →
      (acc ++ kvs).Pairwise (fun a b => keyEq a.1 b.1 = false) →
      ∃ cs', consPairs cons qs acc calls = .ok (acc ++ kvs, cs')
  | _, _, acc, calls, .nil, _, _ => ⟨calls, by simp [consPairs]⟩
  | _, _, acc, calls, .cons (a := e) (b := q) (as := kvs) (bs := qs) ⟨⟨ck, hck⟩, _, ⟨cv, hcv⟩⟩ t, hh, hp => by
    obtain ⟨k, v⟩ := e
    obtain ⟨qk, qv⟩ := q
    have hacc : ∀ e' ∈ acc, keyEq e'.1 k = false := by
      intro e' he'
      have := List.pairwise_append.mp hp
      exact this.2.2 e' he' (k, v) List.mem_cons_self
    have hp' : ((acc ++ [(k, v)]) ++ kvs).Pairwise (fun a b => keyEq a.1 b.1 = false) := by
      simpa [List.append_assoc] using hp
    obtain ⟨cs', h⟩ := consPairs_all2 cons kvs qs (acc ++ [(k, v)]) (calls ++ ck ++ cv) t
      (fun e he => hh e (List.mem_cons_of_mem _ he)) hp'
    refine ⟨cs', ?_⟩
    have hk := hh (k, v) List.mem_cons_self
    simp only at hck hcv hk
    unfold consPairs
    simp only [hck, hcv, hk, Bool.not_true, Bool.false_eq_true, if_false]
    rw [dictSet_append acc k v hacc, h]
    simp [List.append_assoc]

theorem coreOut_map (env : Env) (tbl : List Entry) (fuel : Nat) (k : MapKind) (K V : Ty)
    (kvs : PyKVs) (ps : Pairs) (m : Mark)
    (h : All2 (fun e p =>
            (∃ pk ck, processNode env tbl fuel p.1 K = .ok pk ∧ construct env tbl fuel pk.node = .ok ⟨e.1, ck⟩ ∧
              NotMergeKey pk.node) ∧
            (∃ pv cv, processNode env tbl fuel p.2 V = .ok pv ∧ construct env tbl fuel pv.node = .ok ⟨e.2, cv⟩))
          kvs.toList ps.toList)
    (hk : KeysOk kvs.toList) :
    CoreOut env tbl fuel (.map k K V) (.dict kvs) (.map tMap ps m) := by
  obtain ⟨qs, tr, hqs, hall⟩ := procPairs_all2 (fun n T => processNode env tbl fuel n T) K V
    (construct env tbl fuel) kvs.toList ps.toList h
  have hnm : ∀ q ∈ qs, NotMergeKey q.1 := by
    have : ∀ (l : List (PyVal × PyVal)) (qs : List (Node × Node)),
        All2 (fun e q => (∃ ck, construct env tbl fuel q.1 = .ok ⟨e.1, ck⟩) ∧ NotMergeKey q.1 ∧
          (∃ cv, construct env tbl fuel q.2 = .ok ⟨e.2, cv⟩)) l qs → ∀ q ∈ qs, NotMergeKey q.1 := by
      intro l qs hl
      induction hl with
      | nil => intro q hq; cases hq
      | cons hab _ ih =>
        intro q hq
        rcases List.mem_cons.mp hq with rfl | hq
        · exact hab.2.1
        · exact ih q hq
    exact this _ _ hall
  obtain ⟨cs', hcons⟩ := consPairs_all2 (construct env tbl fuel) kvs.toList qs [] [] hall hk.1 (by simpa using hk.2)
  refine ⟨⟨.map tMap (Pairs.ofList qs) m, [] ++ tr⟩, cs', ?_, ?_, ?_⟩
  · unfold afterRec savStep subStep tagStep
    simp [hqs, typeToTag, Node.setTag]
  · unfold construct
    simp [Node.tag, byTag_core env tMap tMap_core, core_ne_path tMap tMap_core, flattenPairs_plain_keys fuel qs hnm, hcons]
  · intro _; simp [typeToTag, Node.tag]

/-! ### enum members and string-likes -/

theorem byTag_bang_rt (env : Env) (c : String) : env.byTag ("!" ++ c) = env.find c := by
  have h1 : hasPrefix "!" ("!" ++ c) = true := by
    simp [hasPrefix, String.toList_append, List.isPrefixOf]
  have h2 : String.ofList (("!" ++ c).toList.drop 1) = c := by
    simp [String.toList_append, String.ofList_toList]
  simp [Env.byTag, h1]

theorem find_isRegistered (env : Env) (c : String) (d : ClassDef) (h : env.find c = some d) :
    env.isRegistered c = true := by
  unfold Env.find at h
  unfold Env.isRegistered
  have hm := List.mem_of_find?_eq_some h
  have hp := List.find?_some h
  exact List.any_eq_true.mpr ⟨d, hm, hp⟩

theorem tStr_ne_tBool : (tStr == tBool) = false := by decide

theorem coreOut_enum (env : Env) (tbl : List Entry) (fuel : Nat) (c name : String) (m : Mark) (d : ClassDef)
    (members : List String) (hd : env.find c = some d) (hk : d.kind = .enum members)
    (hmem : members.contains name = true)
    (hsav : savorize env (fuel + 1) (.scalar tStr name m) d = .ok (.scalar tStr name m, [])) :
    CoreOut env tbl fuel (.cls c) (.enumMember c name) (.scalar tStr name m) := by
  have hreg := find_isRegistered env c d hd
  have hname := find_name env c d hd
  have hplain : d.isPlain = false := by simp [ClassDef.isPlain, hk]
  refine ⟨⟨.scalar ("!" ++ c) name m, []⟩, [], ?_, ?_, ?_⟩
  · unfold afterRec savStep subStep tagStep
    simp [hd, enumRetag, Node.tag, tStr_ne_tBool, hsav, hplain, typeToTag, hreg, Node.setTag]
  · unfold construct
    have hm : name ∈ members := by simpa using hmem
    simp [Node.tag, byTag_bang_rt, hd, hk, hm, hname]
  · intro _; simp [typeToTag, hreg, Node.tag]

theorem coreOut_userStr (env : Env) (tbl : List Entry) (fuel : Nat) (c s : String) (m : Mark) (d : ClassDef)
    (hd : env.find c = some d) (hk : d.kind = .stringLike) (hinit : d.initRaises [("", .str s)] = false)
    (hsav : savorize env (fuel + 1) (.scalar tStr s m) d = .ok (.scalar tStr s m, [])) :
    CoreOut env tbl fuel (.cls c) (.userStr c s) (.scalar tStr s m) := by
  have hreg := find_isRegistered env c d hd
  have hname := find_name env c d hd
  have hplain : d.isPlain = false := by simp [ClassDef.isPlain, hk]
  have henum : d.isEnum = false := by simp [ClassDef.isEnum, hk]
  refine ⟨⟨.scalar ("!" ++ c) s m, []⟩, [⟨d.name, [(.scalar (.str ""), .scalar (.str s))]⟩], ?_, ?_, ?_⟩
  · unfold afterRec savStep subStep tagStep
    simp [hd, enumRetag, henum, hsav, hplain, typeToTag, hreg, Node.setTag]
  · unfold construct
    simp [Node.tag, byTag_bang_rt, hd, hk, hinit, hname]
  · intro _; simp [typeToTag, hreg, Node.tag]

/-! ### paths, plain data below `Any` -/

theorem coreOut_path (env : Env) (tbl : List Entry) (fuel : Nat) (s : String) (m : Mark)
    (hnp : env.find "Path" = none) :
    CoreOut env tbl fuel .path (.path s) (.scalar tStr s m) := by
  refine ⟨⟨(Node.scalar tStr s m).setTag "!Path", []⟩, [], ?_, ?_, ?_⟩
  · exact afterRec_leaf env tbl fuel .path _ "!Path" (by intro c h; cases h) (by intro k i h; cases h)
      (by intro k a b h; cases h) (by intro h; cases h) rfl
  · have hb : env.byTag "!Path" = none := by
      have := byTag_bang_rt env "Path"
      rw [hnp] at this
      exact this
    unfold construct
    simp [Node.setTag, Node.tag, hb]
  · intro _; simp [typeToTag, Node.setTag, Node.tag]

theorem coreOut_any (env : Env) (tbl : List Entry) (fuel : Nat) (v : PyVal) (n : Node) (cs : List Call)
    (h : construct env tbl (fuel + 1) (stripTags tbl n) = .ok ⟨v, cs⟩) :
    CoreOut env tbl fuel .any v n := by
  refine ⟨⟨stripTags tbl n, []⟩, cs, ?_, h, ?_⟩
  · unfold afterRec savStep subStep tagStep
    simp
  · intro h; exact absurd rfl h

/-! ### user objects: the attribute loop of `__process_node` on a mapping with distinct keys -/

def KeysDistinct (ps : List (Node × Node)) : Prop :=
  (ps.map (fun p => p.1)).Pairwise (fun a b => ∀ s, a.keyIs s = true → b.keyIs s = false)

theorem keysDistinct_cons (p : Node × Node) (ps : List (Node × Node)) (h : KeysDistinct (p :: ps)) :
    (∀ q ∈ ps, ∀ s, p.1.keyIs s = true → q.1.keyIs s = false) ∧ KeysDistinct ps := by
  unfold KeysDistinct at *
  simp only [List.map_cons, List.pairwise_cons] at h
  refine ⟨?_, h.2⟩
  intro q hq s hs
  exact h.1 q.1 (List.mem_map.mpr ⟨q, hq, rfl⟩) s hs

theorem keysDistinct_map_snd (g : Node × Node → Node × Node) (hg : ∀ p, (g p).1 = p.1)
    (ps : List (Node × Node)) (h : KeysDistinct ps) : KeysDistinct (ps.map g) := by
  unfold KeysDistinct at *
  have : (ps.map g).map (fun p => p.1) = ps.map (fun p => p.1) := by
    simp [List.map_map, Function.comp_def, hg]
  rw [this]; exact h

theorem hasKey_false (ps : List (Node × Node)) (a : String) (h : hasKey ps a = false) :
    ∀ p ∈ ps, p.1.keyIs a = false := by
  intro p hp
  unfold hasKey at h
  cases hk : p.1.keyIs a
  · rfl
  · have : ps.any (fun p => p.1.keyIs a) = true := List.any_eq_true.mpr ⟨p, hp, hk⟩
    rw [this] at h; cases h

theorem valuesOf_distinct : ∀ (ps : List (Node × Node)) (a : String) (p0 : Node × Node),
    KeysDistinct ps → p0 ∈ ps → p0.1.keyIs a = true → valuesOf ps a = [p0.2]
  | [], _, _, _, h, _ => by cases h
  | p :: ps, a, p0, hd, hmem, hk => by
    obtain ⟨hfirst, hrest⟩ := keysDistinct_cons p ps hd
    rcases List.mem_cons.mp hmem with rfl | hmem
    · have hno : ∀ q ∈ ps, q.1.keyIs a = false := fun q hq => hfirst q hq a hk
      have : valuesOf ps a = [] := by
        unfold valuesOf
        have : ps.filter (fun p => p.1.keyIs a) = [] := List.filter_eq_nil_iff.mpr (by
          intro q hq; simp [hno q hq])
        simp [this]
      rw [valuesOf_cons, this]; simp [hk]
    · have hp : p.1.keyIs a = false := by
        cases hpk : p.1.keyIs a
        · rfl
        · have := hfirst p0 hmem a hpk
          rw [hk] at this; cases this
      rw [valuesOf_cons]
      simp [hp, valuesOf_distinct ps a p0 hrest hmem hk]

def setVal (a : String) (v : Node) (p : Node × Node) : Node × Node := if p.1.keyIs a then (p.1, v) else p

theorem setFirst_map : ∀ (ps : List (Node × Node)) (a : String) (v : Node),
    KeysDistinct ps → hasKey ps a = true → setFirst ps a v = ps.map (setVal a v)
  | [], _, _, _, h => by simp [hasKey] at h
  | (k, x) :: ps, a, v, hd, hk => by
    obtain ⟨hfirst, hrest⟩ := keysDistinct_cons (k, x) ps hd
    cases hka : k.keyIs a
    · have hk' : hasKey ps a = true := by
        unfold hasKey at *
        simpa [hka] using hk
      simp [setFirst, hka, setVal, setFirst_map ps a v hrest hk']
    · have hno : ∀ q ∈ ps, q.1.keyIs a = false := fun q hq => hfirst q hq a hka
      have : ps.map (setVal a v) = ps := by
        calc ps.map (setVal a v) = ps.map id :=
              List.map_congr_left (by intro q hq; simp [setVal, hno q hq])
          _ = ps := List.map_id ps
      simp [setFirst, hka, setVal, this]

def procNodeOf (proc : Node → Ty → ProcRes) (x : Node) (T : Ty) : Node :=
  match proc x T with
  | .ok o => o.node
  | .error _ => x

/-- what the attribute loop leaves of one pair: the value processed for the parameter the key names -/
def updPair (proc : Node → Ty → ProcRes) (params : List Param) (p : Node × Node) : Node × Node :=
  match params.find? (fun prm => p.1.keyIs prm.name) with
  | some prm => (p.1, procNodeOf proc p.2 prm.ty)
  | none => p

theorem updPair_fst (proc : Node → Ty → ProcRes) (params : List Param) (p : Node × Node) :
    (updPair proc params p).1 = p.1 := by
  unfold updPair; split <;> rfl

theorem setVal_fst (a : String) (v : Node) (p : Node × Node) : (setVal a v p).1 = p.1 := by
  unfold setVal; split <;> rfl

theorem find_none_of_name (rest : List Param) (k : Node) (a : String) (hk : k.keyIs a = true)
    (hn : a ∉ rest.map (·.name)) : rest.find? (fun prm => k.keyIs prm.name) = none := by
  apply List.find?_eq_none.mpr
  intro prm hprm hkp
  have hkp' : k.keyIs prm.name = true := by simpa using hkp
  have := keyIs_two k a prm.name hk hkp'
  exact hn (this ▸ List.mem_map.mpr ⟨prm, hprm, rfl⟩)

theorem procAttrs_map (proc : Node → Ty → ProcRes) (t : String) (m : Mark) :
    ∀ (params : List Param) (ps : List (Node × Node)),
      KeysDistinct ps → (params.map (·.name)).Nodup →
      (∀ prm ∈ params, ∀ p ∈ ps, p.1.keyIs prm.name = true → ∃ o, proc p.2 prm.ty = .ok o) →
      ∃ tr, procAttrs proc (.map t (Pairs.ofList ps) m) params
          = .ok (.map t (Pairs.ofList (ps.map (updPair proc params))) m, tr)
  | [], ps, _, _, _ => by
    refine ⟨[], ?_⟩
    have : ps.map (updPair proc []) = ps := by
      calc ps.map (updPair proc []) = ps.map id := List.map_congr_left (by intro p _; simp [updPair])
        _ = ps := List.map_id ps
    simp [procAttrs, this]
  | prm :: rest, ps, hd, hnd, hs => by
    have hnd' : (rest.map (·.name)).Nodup := (List.nodup_cons.mp (by simpa using hnd)).2
    have hnotin : prm.name ∉ rest.map (·.name) := (List.nodup_cons.mp (by simpa using hnd)).1
    unfold procAttrs
    have hha : hasAttribute (.map t (Pairs.ofList ps) m) prm.name = .ok (hasKey ps prm.name) := by
      simp [hasAttribute]
    rw [hha]
    cases hk : hasKey ps prm.name
    · -- the parameter is not given
      obtain ⟨tr, ih⟩ := procAttrs_map proc t m rest ps hd hnd'
        (fun q hq p hp hkp => hs q (List.mem_cons_of_mem _ hq) p hp hkp)
      refine ⟨tr, ?_⟩
      have hno := hasKey_false ps prm.name hk
      have : ps.map (updPair proc (prm :: rest)) = ps.map (updPair proc rest) := by
        apply List.map_congr_left
        intro p hp
        simp [updPair, List.find?, hno p hp]
      simp only [this]
      exact ih
    · -- the parameter is given, exactly once
      obtain ⟨p0, hp0, hk0⟩ := List.any_eq_true.mp (by unfold hasKey at hk; exact hk)
      have hvals := valuesOf_distinct ps prm.name p0 hd hp0 hk0
      obtain ⟨o, ho⟩ := hs prm List.mem_cons_self p0 hp0 hk0
      have hga : getAttribute (.map t (Pairs.ofList ps) m) prm.name = .ok p0.2 := by
        simp [getAttribute, hvals]
      have hsa : setAttribute (.map t (Pairs.ofList ps) m) prm.name o.node
          = .ok (.map t (Pairs.ofList (ps.map (setVal prm.name o.node))) m) := by
        simp [setAttribute, setFirst_map ps prm.name o.node hd hk]
      have hd1 : KeysDistinct (ps.map (setVal prm.name o.node)) :=
        keysDistinct_map_snd _ (setVal_fst _ _) ps hd
      have hs1 : ∀ q ∈ rest, ∀ p1 ∈ ps.map (setVal prm.name o.node), p1.1.keyIs q.name = true →
          ∃ o', proc p1.2 q.ty = .ok o' := by
        intro q hq p1 hp1 hkq
        obtain ⟨p, hp, rfl⟩ := List.mem_map.mp hp1
        rw [setVal_fst] at hkq
        cases hkp : p.1.keyIs prm.name
        · have : setVal prm.name o.node p = p := by simp [setVal, hkp]
          rw [this]
          exact hs q (List.mem_cons_of_mem _ hq) p hp hkq
        · exfalso
          have := keyIs_two p.1 prm.name q.name hkp hkq
          exact hnotin (this ▸ List.mem_map.mpr ⟨q, hq, rfl⟩)
      obtain ⟨tr, ih⟩ := procAttrs_map proc t m rest _ hd1 hnd' hs1
      refine ⟨o.trace ++ tr, ?_⟩
      have hfinal : (ps.map (setVal prm.name o.node)).map (updPair proc rest)
          = ps.map (updPair proc (prm :: rest)) := by
        rw [List.map_map]
        apply List.map_congr_left
        intro p hp
        cases hkp : p.1.keyIs prm.name
        · simp [setVal, hkp, updPair, List.find?]
        · have hv := valuesOf_distinct ps prm.name p hd hp hkp
          rw [hvals] at hv
          have hp2 : p0.2 = p.2 := by simpa using hv
          have hnone := find_none_of_name rest p.1 prm.name hkp hnotin
          simp [setVal, hkp, updPair, List.find?, hnone, procNodeOf, ← hp2, ho]
      simp only [hga, ho, hsa, ih, hfinal]

/-! ### user objects: the attribute checks of the constructor -/

theorem keyEq_str (a b : String) : keyEq (strKey a) (strKey b) = (a == b) := by
  simp [keyEq, numKey, strKey]
  by_cases h : a = b
  · simp [h]
  · have h1 : (PyVal.scalar (PyScalar.str a) == PyVal.scalar (PyScalar.str b)) = false := by
      apply beq_eq_false_iff_ne.mpr
      intro hc
      injection hc with hc
      injection hc with hc
      exact h hc
    have h2 : (a == b) = false := by simpa using h
    rw [h1, h2]

theorem eq_of_name : ∀ (l : List Param), (l.map (·.name)).Nodup → ∀ a ∈ l, ∀ b ∈ l, a.name = b.name → a = b
  | [], _, a, ha, _, _, _ => by cases ha
  | x :: l, h, a, ha, b, hb, hab => by
    simp only [List.map_cons] at h
    have hnd := List.nodup_cons.mp h
    rcases List.mem_cons.mp ha with rfl | ha' <;> rcases List.mem_cons.mp hb with rfl | hb'
    · rfl
    · exact absurd (List.mem_map.mpr ⟨b, hb', hab.symm⟩) hnd.1
    · exact absurd (List.mem_map.mpr ⟨a, ha', hab⟩) hnd.1
    · exact eq_of_name l hnd.2 a ha' b hb' hab

theorem dictGet_mem (mapping : List (PyVal × PyVal)) (k : String) (v : PyVal) (h : dictGet mapping k = some v) :
    ∃ e ∈ mapping, keyEq e.1 (strKey k) = true ∧ e.2 = v := by
  unfold dictGet at h
  cases hf : mapping.find? (fun e => keyEq e.1 (.scalar (.str k))) with
  | none => rw [hf] at h; cases h
  | some e =>
    rw [hf] at h
    simp only [Option.map_some, Option.some.injEq] at h
    exact ⟨e, List.mem_of_find?_eq_some hf, by simpa [strKey] using List.find?_some hf, h⟩

theorem dictGet_none (mapping : List (PyVal × PyVal)) (k : String) (h : dictGet mapping k = none) :
    ∀ e ∈ mapping, keyEq e.1 (strKey k) = false := by
  unfold dictGet at h
  cases hf : mapping.find? (fun e => keyEq e.1 (.scalar (.str k))) with
  | some e => rw [hf] at h; cases h
  | none =>
    intro e he
    have := List.find?_eq_none.mp hf e he
    simpa [strKey] using this

/-- the facts about the keyword arguments that the attribute checks rely on -/
structure KwFacts (env : Env) (d : ClassDef) (mainKw extraKw : List (PyVal × PyVal)) : Prop where
  main : ∀ e ∈ mainKw, ∃ name prm, e.1 = strKey name ∧ prm ∈ d.params ∧ prm.name = name ∧
            typeMatches env e.2 prm.ty = true
  extra : ∀ e ∈ extraKw, ∃ name, e.1 = strKey name ∧ d.argNames.contains name = false ∧ name ≠ "self"
  required : ∀ prm ∈ d.params, prm.required = true → ∃ e ∈ mainKw, e.1 = strKey prm.name
  paramsNodup : (d.params.map (·.name)).Nodup
  argsParams : ∀ prm ∈ d.params, d.argNames.contains prm.name = true ∧ prm.name ≠ "_yatiml_extra" ∧ prm.name ≠ "self"
  noExtra : d.takesExtra = false → extraKw = []

theorem checkAttributes_none_of (env : Env) (d : ClassDef) (n : Node) (ps1 : List (Node × Node))
    (mainKw extraKw : List (PyVal × PyVal)) (F : KwFacts env d mainKw extraKw) :
    checkAttributes env d n ps1 (mainKw ++ extraKw) = none := by
  unfold checkAttributes
  generalize hmiss : List.findSome? _ d.params = missing
  have hnone : missing = none := by
    rw [← hmiss]
    apply List.findSome?_eq_none_iff.mpr
    intro prm hprm
    cases hg : dictGet (mainKw ++ extraKw) prm.name with
    | none =>
      cases hr : prm.required
      · simp
      · exfalso
        obtain ⟨e, he, hek⟩ := F.required prm hprm hr
        have := dictGet_none _ _ hg e (List.mem_append_left _ he)
        rw [hek, keyEq_str] at this
        simp at this
    | some v =>
      obtain ⟨e, he, hke, hev⟩ := dictGet_mem _ _ _ hg
      rcases List.mem_append.mp he with hm | hx
      · obtain ⟨name, prm', hk, hp', hn', htm⟩ := F.main e hm
        rw [hk, keyEq_str] at hke
        have hname : name = prm.name := by simpa using hke
        have : prm' = prm := eq_of_name d.params F.paramsNodup prm' hp' prm hprm (hn'.trans hname)
        rw [this, hev] at htm
        simp [htm]
      · exfalso
        obtain ⟨name, hk, hna, _⟩ := F.extra e hx
        rw [hk, keyEq_str] at hke
        have hname : name = prm.name := by simpa using hke
        rw [hname, (F.argsParams prm hprm).1] at hna
        cases hna
  subst hnone
  simp only
  apply List.findSome?_eq_none_iff.mpr
  intro e he
  rcases List.mem_append.mp he with hm | hx
  · obtain ⟨name, prm, hk, hp, hn, htm⟩ := F.main e hm
    have ha := (F.argsParams prm hp).1
    rw [hn] at ha
    have hfind : d.params.find? (fun p => p.name == name) = some prm := by
      cases hf : d.params.find? (fun p => p.name == name) with
      | none =>
        have := List.find?_eq_none.mp hf prm hp
        simp [hn] at this
      | some q =>
        have hq := List.mem_of_find?_eq_some hf
        have hqn : q.name = name := by simpa using List.find?_some hf
        rw [eq_of_name d.params F.paramsNodup q hq prm hp (hqn.trans hn.symm)]
    have ha' : name ∈ d.argNames := by simpa using ha
    simp [hk, strKey, ha', hfind, htm]
  · obtain ⟨name, hk, hna, hself⟩ := F.extra e hx
    have hte : d.takesExtra = true := by
      cases ht : d.takesExtra
      · rw [F.noExtra ht] at hx; cases hx
      · rfl
    have hfind : d.params.find? (fun p => p.name == name) = none := by
      apply List.find?_eq_none.mpr
      intro q hq hqn
      have hqn' : q.name = name := by simpa using hqn
      have := (F.argsParams q hq).1
      rw [hqn', hna] at this
      cases this
    have hne : (name == "_yatiml_extra") = false := by
      cases hb : name == "_yatiml_extra"
      · rfl
      · have : name = "_yatiml_extra" := by simpa using hb
        subst this
        unfold ClassDef.takesExtra at hte
        rw [hte] at hna; cases hna
    have hna' : name ∉ d.argNames := by simpa using hna
    simp [hk, strKey, hna', hte, hfind, hne]

/-! ### user objects: the constructor -/

/-- the tag stripping of `__strip_extra_attributes`, pair by pair -/
def stripExtra (tbl : List Entry) (d : ClassDef) (p : Node × Node) : Node × Node :=
  match p.1 with
  | .scalar _ k _ => if (d.argNames.filter (· != "_yatiml_extra")).contains k then p else (p.1, stripTags tbl p.2)
  | _ => p

theorem construct_plain (env : Env) (tbl : List Entry) (fuel : Nat) (c : String) (d : ClassDef)
    (ps' : List (Node × Node)) (m : Mark) (mapping : List (PyVal × PyVal)) (calls : List Call)
    (hd : env.find c = some d) (hk : d.kind = .plain)
    (hkeys : ps'.all (fun p => p.1.isScalarNode && p.1.tag == tStr) = true)
    (hflat : flattenPairs (fuel + 1) (ps'.map (stripExtra tbl d)) = some (ps'.map (stripExtra tbl d)))
    (hcons : consPairs (construct env tbl fuel) (ps'.map (stripExtra tbl d)) [] [] = .ok (mapping, calls))
    (hcheck : checkAttributes env d (.map ("!" ++ c) (Pairs.ofList ps') m) (ps'.map (stripExtra tbl d)) mapping = none)
    (hself : (dictGet mapping "self").isSome = false)
    (hinit : d.initRaises (scalarArgs (kwargsOf d mapping)) = false) :
    construct env tbl (fuel + 1) (.map ("!" ++ c) (Pairs.ofList ps') m)
      = .ok ⟨.obj d.name (PyKVs.ofList (kwargsOf d mapping)), calls ++ [⟨d.name, kwargsOf d mapping⟩]⟩ := by
  have htag : (Node.map ("!" ++ c) (Pairs.ofList ps') m).tag = "!" ++ c := rfl
  unfold construct
  simp only [htag, byTag_bang_rt, hd, hk, Pairs.toList_ofList, hkeys, Bool.not_true, Bool.false_eq_true, if_false]
  rw [List.map_congr_left (g := stripExtra tbl d)]
  · simp only [hflat, hcons, hcheck, hself, hinit, Bool.false_eq_true, if_false]
  · intro p _
    unfold stripExtra
    rfl

/-! ### user objects: assembling the pieces -/

theorem All2.append {α β : Type} {r : α → β → Prop} {as as' : List α} {bs bs' : List β} :
    All2 r as bs → All2 r as' bs' → All2 r (as ++ as') (bs ++ bs')
  | .nil, h => h
  | .cons hab t, h => .cons hab (All2.append t h)

theorem All2.map_right {α β γ : Type} {r : α → β → Prop} {s : α → γ → Prop} (g : β → γ)
    (h : ∀ a b, r a b → s a (g b)) : ∀ {as : List α} {bs : List β}, All2 r as bs → All2 s as (bs.map g)
  | _, _, .nil => .nil
  | _, _, .cons hab t => .cons (h _ _ hab) (All2.map_right g h t)

theorem All2.mem_right {α β : Type} {r : α → β → Prop} : ∀ {as : List α} {bs : List β},
    All2 r as bs → ∀ b ∈ bs, ∃ a ∈ as, r a b
  | _, _, .nil, b, hb => by cases hb
  | _, _, .cons (a := a) hab t, b, hb => by
    rcases List.mem_cons.mp hb with rfl | hb
    · exact ⟨a, List.mem_cons_self, hab⟩
    · obtain ⟨a', ha', hr⟩ := All2.mem_right t b hb
      exact ⟨a', List.mem_cons_of_mem _ ha', hr⟩

theorem All2.mem_left {α β : Type} {r : α → β → Prop} : ∀ {as : List α} {bs : List β},
    All2 r as bs → ∀ a ∈ as, ∃ b ∈ bs, r a b
  | _, _, .nil, a, ha => by cases ha
  | _, _, .cons (b := b) hab t, a, ha => by
    rcases List.mem_cons.mp ha with rfl | ha
    · exact ⟨b, List.mem_cons_self, hab⟩
    · obtain ⟨b', hb', hr⟩ := All2.mem_left t a ha
      exact ⟨b', List.mem_cons_of_mem _ hb', hr⟩

/-- a keyword argument and the mapping pair it came from carry the same name -/
def SameName (e : PyVal × PyVal) (p : Node × Node) : Prop :=
  ∃ name mk, e.1 = strKey name ∧ p.1 = .scalar tStr name mk

theorem keyIs_scalar (t v : String) (m : Mark) (a : String) : (Node.scalar t v m).keyIs a = (v == a) := rfl

theorem pairwise_of_all2 : ∀ {kws : List (PyVal × PyVal)} {ps : List (Node × Node)},
    All2 SameName kws ps → KeysDistinct ps → kws.Pairwise (fun a b => keyEq a.1 b.1 = false)
  | _, _, .nil, _ => List.Pairwise.nil
  | _, _, .cons (a := e) (b := p) (as := kws) (bs := ps) ⟨name, mk, he, hp⟩ t, hd => by
    obtain ⟨hfirst, hrest⟩ := keysDistinct_cons p ps hd
    refine List.Pairwise.cons ?_ (pairwise_of_all2 t hrest)
    intro e' he'
    obtain ⟨p', hp', name', mk', he'n, hp'n⟩ := All2.mem_left t e' he'
    have h1 := hfirst p' hp' name (by rw [hp, keyIs_scalar]; simp)
    rw [hp'n, keyIs_scalar] at h1
    rw [he, he'n, keyEq_str]
    cases hb : name == name'
    · rfl
    · have : name = name' := by simpa using hb
      rw [this] at h1
      simp at h1

theorem find_param (params : List Param) (hnd : (params.map (·.name)).Nodup) (prm : Param) (hp : prm ∈ params)
    (t : String) (mk : Mark) :
    params.find? (fun q => (Node.scalar t prm.name mk).keyIs q.name) = some prm := by
  cases hf : params.find? (fun q => (Node.scalar t prm.name mk).keyIs q.name) with
  | none =>
    have := List.find?_eq_none.mp hf prm hp
    simp [keyIs_scalar] at this
  | some q =>
    have hq := List.mem_of_find?_eq_some hf
    have hqn := List.find?_some hf
    rw [keyIs_scalar] at hqn
    have : prm.name = q.name := by simpa using hqn
    rw [eq_of_name params hnd q hq prm hp this.symm]

theorem construct_key (env : Env) (tbl : List Entry) (fuel : Nat) (name : String) (mk : Mark) :
    construct env tbl (fuel + 1) (.scalar tStr name mk) = .ok ⟨strKey name, []⟩ := by
  rw [construct_scalar env tbl fuel tStr name mk tStr_core]
  simp [constructScalarCore, strKey]

theorem kwargsOf_eq (env : Env) (d : ClassDef) (mainKw extraKw : List (PyVal × PyVal))
    (F : KwFacts env d mainKw extraKw) :
    kwargsOf d (mainKw ++ extraKw) =
      mainKw ++ (if d.takesExtra then [(strKey "_yatiml_extra", .dict (PyKVs.ofList extraKw))] else []) := by
  unfold kwargsOf
  cases ht : d.takesExtra
  · simp [F.noExtra ht]
  · have hm : ∀ e ∈ mainKw, ∃ name, e.1 = strKey name ∧ name ∈ d.argNames ∧ name ≠ "_yatiml_extra" := by
      intro e he
      obtain ⟨name, prm, hk, hp, hn, _⟩ := F.main e he
      have ha := F.argsParams prm hp
      rw [hn] at ha
      exact ⟨name, hk, by simpa using ha.1, ha.2.1⟩
    have hx : ∀ e ∈ extraKw, ∃ name, e.1 = strKey name ∧ name ∉ d.argNames := by
      intro e he
      obtain ⟨name, hk, hna, _⟩ := F.extra e he
      exact ⟨name, hk, by simpa using hna⟩
    simp only [if_true, List.filter_append]
    rw [List.filter_eq_self.mpr]
    · rw [List.filter_eq_nil_iff.mpr]
      · rw [List.filter_eq_nil_iff.mpr]
        · rw [List.filter_eq_self.mpr]
          · simp [strKey]
          · intro e he
            obtain ⟨name, hk, hna⟩ := hx e he
            rw [hk]; simp [strKey, hna]
        · intro e he
          obtain ⟨name, hk, ha, hne⟩ := hm e he
          rw [hk]; simp [strKey, ha, hne]
      · intro e he
        obtain ⟨name, hk, hna⟩ := hx e he
        rw [hk]; simp [strKey, hna]
    · intro e he
      obtain ⟨name, hk, ha, hne⟩ := hm e he
      rw [hk]; simp [strKey, ha, hne]

theorem dictGet_self (env : Env) (d : ClassDef) (mainKw extraKw : List (PyVal × PyVal))
    (F : KwFacts env d mainKw extraKw) : (dictGet (mainKw ++ extraKw) "self").isSome = false := by
  cases hg : dictGet (mainKw ++ extraKw) "self" with
  | none => rfl
  | some v =>
    exfalso
    obtain ⟨e, he, hke, _⟩ := dictGet_mem _ _ _ hg
    rcases List.mem_append.mp he with hm | hx
    · obtain ⟨name, prm, hk, hp, hn, _⟩ := F.main e hm
      rw [hk, keyEq_str] at hke
      have : name = "self" := by simpa using hke
      exact (F.argsParams prm hp).2.2 (hn.trans this)
    · obtain ⟨name, hk, _, hs⟩ := F.extra e hx
      rw [hk, keyEq_str] at hke
      exact hs (by simpa using hke)

/-- "the loader, with this much fuel, turns `n` into `v`" -/
def Loads (env : Env) (tbl : List Entry) (fuel : Nat) (T : Ty) (v : PyVal) (n : Node) : Prop :=
  ∃ p cs, processNode env tbl fuel n T = .ok p ∧ construct env tbl fuel p.node = .ok ⟨v, cs⟩

theorem loads_fuel_pos (env : Env) (tbl : List Entry) (fuel : Nat) (T : Ty) (v : PyVal) (n : Node)
    (h : Loads env tbl fuel T v n) : ∃ f, fuel = f + 1 := by
  cases fuel with
  | zero => obtain ⟨p, cs, hp, _⟩ := h; simp [processNode] at hp
  | succ f => exact ⟨f, rfl⟩

theorem construct_fuel_pos (env : Env) (tbl : List Entry) (fuel : Nat) (n : Node) (o : ConsOut)
    (h : construct env tbl fuel n = .ok o) : ∃ f, fuel = f + 1 := by
  cases fuel with
  | zero => simp [construct] at h
  | succ f => exact ⟨f, rfl⟩

theorem tStr_not_merge : NotMergeKey (.scalar tStr name mk) := by
  constructor <;> simp only [Node.tag] <;> decide

theorem coreOut_obj (env : Env) (tbl : List Entry) (fuel : Nat) (c : String) (kw : PyKVs) (ps : Pairs) (m : Mark)
    (d : ClassDef) (mainKw extraKw : List (PyVal × PyVal)) (mainPs extraPs : List (Node × Node))
    (hd : env.find c = some d) (hk : d.kind = .plain)
    (O : ObjOK env tbl fuel (Loads env tbl fuel) d (.map tMap ps m) kw.toList ps.toList mainKw extraKw mainPs extraPs) :
    CoreOut env tbl fuel (.cls c) (.obj c kw) (.map tMap ps m) := by
  have hreg := find_isRegistered env c d hd
  have hname := find_name env c d hd
  have hplain : d.isPlain = true := by simp [ClassDef.isPlain, hk]
  have henum : d.isEnum = false := by simp [ClassDef.isEnum, hk]
  let proc : Node → Ty → ProcRes := fun n T => processNode env tbl fuel n T
  have F : KwFacts env d mainKw extraKw :=
    { main := by
        intro e he
        obtain ⟨p, _, name, mk, prm, h1, _, h3, h4, _, h6⟩ := All2.mem_left O.main e he
        exact ⟨name, prm, h1, h3, h4, h6⟩
      extra := by
        intro e he
        obtain ⟨p, _, name, mk, cs, h1, _, h3, h4, _⟩ := All2.mem_left O.extra e he
        exact ⟨name, h1, h3, h4⟩
      required := O.required
      paramsNodup := O.paramsNodup
      argsParams := O.argsParams
      noExtra := O.noExtra }
  -- the attribute loop
  have hsucc : ∀ prm ∈ d.params, ∀ p ∈ ps.toList, p.1.keyIs prm.name = true → ∃ o, proc p.2 prm.ty = .ok o := by
    intro prm hprm p hp hkp
    rw [O.psEq] at hp
    rcases List.mem_append.mp hp with hm | hx
    · obtain ⟨e, _, name, mk, prm', _, h2, h3, h4, ⟨pv, _, hpv, _⟩, _⟩ := All2.mem_right O.main p hm
      rw [h2, keyIs_scalar] at hkp
      have hn : name = prm.name := by simpa using hkp
      have : prm' = prm := eq_of_name d.params O.paramsNodup prm' h3 prm hprm (h4.trans hn)
      exact ⟨pv, this ▸ hpv⟩
    · exfalso
      obtain ⟨e, _, name, mk, cs, _, h2, h3, _, _⟩ := All2.mem_right O.extra p hx
      rw [h2, keyIs_scalar] at hkp
      have hn : name = prm.name := by simpa using hkp
      rw [hn, (O.argsParams prm hprm).1] at h3
      cases h3
  obtain ⟨tr, hattrs⟩ := procAttrs_map proc tMap m d.params ps.toList O.distinct O.paramsNodup hsucc
  rw [Pairs.ofList_toList] at hattrs
  -- the processed pairs, described one by one
  have hq : All2 (fun e q => (∃ ck, construct env tbl fuel q.1 = .ok ⟨e.1, ck⟩) ∧ NotMergeKey q.1 ∧
      (∃ cv, construct env tbl fuel q.2 = .ok ⟨e.2, cv⟩)) (mainKw ++ extraKw)
      ((ps.toList.map (updPair proc d.params)).map (stripExtra tbl d)) := by
    rw [O.psEq, List.map_append, List.map_append]
    apply All2.append
    · rw [List.map_map]
      refine All2.map_right _ ?_ O.main
      rintro e p ⟨name, mk, prm, h1, h2, h3, h4, hl, _⟩
      obtain ⟨f, hf⟩ := loads_fuel_pos env tbl fuel _ _ _ hl
      obtain ⟨pv, cv, hpv, hcv⟩ := hl
      have ha := O.argsParams prm h3
      rw [h4] at ha
      have hfind := find_param d.params O.paramsNodup prm h3 tStr mk
      rw [h4] at hfind
      have hupd : updPair proc d.params p = (p.1, pv.node) := by
        obtain ⟨pk, px⟩ := p
        simp only at h2
        subst h2
        simp only [updPair, hfind, procNodeOf, proc, hpv]
      have hknown : (d.argNames.filter (· != "_yatiml_extra")).contains name = true := by
        have h1' : name ∈ d.argNames := by simpa using ha.1
        simp [h1', ha.2.1]
      have hstrip : stripExtra tbl d (p.1, pv.node) = (p.1, pv.node) := by
        rw [h2]; simp only [stripExtra, hknown, if_true]
      simp only [Function.comp, hupd, hstrip]
      refine ⟨⟨[], ?_⟩, ?_, ⟨cv, hcv⟩⟩
      · rw [h1, h2, hf]; exact construct_key env tbl f name mk
      · rw [h2]; exact tStr_not_merge
    · rw [List.map_map]
      refine All2.map_right _ ?_ O.extra
      rintro e p ⟨name, mk, cs, h1, h2, h3, _, hc⟩
      obtain ⟨f, hf⟩ := construct_fuel_pos env tbl fuel _ _ hc
      have hfind : d.params.find? (fun q => p.1.keyIs q.name) = none := by
        apply List.find?_eq_none.mpr
        intro q hq hkq
        rw [h2, keyIs_scalar] at hkq
        have hn : name = q.name := by simpa using hkq
        have := (O.argsParams q hq).1
        rw [← hn, h3] at this
        cases this
      have hupd : updPair proc d.params p = p := by simp only [updPair, hfind]
      have hknown : (d.argNames.filter (· != "_yatiml_extra")).contains name = false := by
        have h3' : name ∉ d.argNames := by simpa using h3
        simp [h3']
      have hstrip : stripExtra tbl d p = (p.1, stripTags tbl p.2) := by
        obtain ⟨pk, px⟩ := p
        simp only at h2
        subst h2
        simp only [stripExtra, hknown]
        simp
      simp only [Function.comp, hupd, hstrip]
      refine ⟨⟨[], ?_⟩, ?_, ⟨cs, hc⟩⟩
      · rw [h1, h2, hf]; exact construct_key env tbl f name mk
      · rw [h2]; exact tStr_not_merge
  -- PyYAML's mapping construction
  have hnm : ∀ q ∈ (ps.toList.map (updPair proc d.params)).map (stripExtra tbl d), NotMergeKey q.1 := by
    intro q hq'
    obtain ⟨_, _, h⟩ := All2.mem_right hq q hq'
    exact h.2.1
  have hflat := flattenPairs_plain_keys fuel _ hnm
  have hsame : All2 SameName (mainKw ++ extraKw) ps.toList := by
    rw [O.psEq]
    apply All2.append
    · exact All2.imp (fun e p ⟨name, mk, _, h1, h2, _⟩ => ⟨name, mk, h1, h2⟩) O.main
    · exact All2.imp (fun e p ⟨name, mk, _, h1, h2, _⟩ => ⟨name, mk, h1, h2⟩) O.extra
  have hhash : ∀ e ∈ mainKw ++ extraKw, hashable e.1 = true := by
    intro e he
    obtain ⟨_, _, name, _, h1, _⟩ := All2.mem_left hsame e he
    rw [h1]; rfl
  have hpw := pairwise_of_all2 hsame O.distinct
  obtain ⟨cs', hcons⟩ := consPairs_all2 (construct env tbl fuel) (mainKw ++ extraKw) _ [] [] hq hhash
    (by simpa using hpw)
  simp only [List.nil_append] at hcons
  have hkeys : (ps.toList.map (updPair proc d.params)).all (fun p => p.1.isScalarNode && p.1.tag == tStr) = true := by
    apply List.all_eq_true.mpr
    intro p' hp'
    obtain ⟨p, hp, rfl⟩ := List.mem_map.mp hp'
    obtain ⟨_, _, name, mk, _, h2⟩ := All2.mem_right hsame p hp
    rw [updPair_fst, h2]
    simp [Node.isScalarNode, Node.tag]
  have hcheck := checkAttributes_none_of env d
    (.map ("!" ++ c) (Pairs.ofList (ps.toList.map (updPair proc d.params))) m)
    ((ps.toList.map (updPair proc d.params)).map (stripExtra tbl d)) mainKw extraKw F
  have hkw := kwargsOf_eq env d mainKw extraKw F
  have hkw' : kwargsOf d (mainKw ++ extraKw) = kw.toList := by rw [hkw, O.kwEq]
  have hinit : d.initRaises (scalarArgs (kwargsOf d (mainKw ++ extraKw))) = false := by rw [hkw']; exact O.init
  have hcons' := construct_plain env tbl fuel c d (ps.toList.map (updPair proc d.params)) m (mainKw ++ extraKw) cs'
    hd hk hkeys hflat hcons hcheck (dictGet_self env d mainKw extraKw F) hinit
  rw [hkw', PyKVs.ofList_toList, hname] at hcons'
  refine ⟨⟨.map ("!" ++ c) (Pairs.ofList (ps.toList.map (updPair proc d.params))) m, [] ++ tr⟩, _, ?_, hcons', ?_⟩
  · unfold afterRec savStep subStep tagStep
    simp only [hd, enumRetag, henum, Bool.false_and, Bool.false_eq_true, if_false, O.sav, hplain, Node.isMapNode,
      Bool.and_self, if_true]
    rw [hattrs]
    simp [typeToTag, hreg, Node.setTag]
  · intro _; simp [typeToTag, hreg, Node.tag]

/-! ### the round trip -/

theorem ObjOK.imp {env : Env} {tbl : List Entry} {fuel : Nat} {rt rt' : Ty → PyVal → Node → Prop}
    (h : ∀ T v n, rt T v n → rt' T v n) {d : ClassDef} {n : Node} {kw : List (PyVal × PyVal)}
    {ps : List (Node × Node)} {mainKw extraKw : List (PyVal × PyVal)} {mainPs extraPs : List (Node × Node)}
    (O : ObjOK env tbl fuel rt d n kw ps mainKw extraKw mainPs extraPs) :
    ObjOK env tbl fuel rt' d n kw ps mainKw extraKw mainPs extraPs :=
  { sav := O.sav, psEq := O.psEq, kwEq := O.kwEq, noExtra := O.noExtra,
    main := All2.imp (fun _ _ ⟨name, mk0, prm, h1, h2, h3, h4, h5, h6⟩ =>
      ⟨name, mk0, prm, h1, h2, h3, h4, h _ _ _ h5, h6⟩) O.main
    extra := O.extra, distinct := O.distinct, required := O.required, paramsNodup := O.paramsNodup
    argsParams := O.argsParams, init := O.init }

theorem bang_not_merge (d : String) : NotMergeKey (.scalar ("!" ++ d) v m) := by
  have hb : hasPrefix "!" ("!" ++ d) = true := by simp [hasPrefix, String.toList_append, List.isPrefixOf]
  constructor <;> simp only [Node.tag]
  · cases h : ("!" ++ d == tMerge)
    · rfl
    · have : "!" ++ d = tMerge := by simpa using h
      rw [this] at hb
      exact absurd hb (by decide)
  · cases h : ("!" ++ d == tValue)
    · rfl
    · have : "!" ++ d = tValue := by simpa using h
      rw [this] at hb
      exact absurd hb (by decide)

/-- the processed form of a dict key is never a merge key -/
theorem key_not_merge (env : Env) (K R : Ty) (p : Node) (hK : keyTypeOk env K = true) (ha : Admits env K R)
    (ht : R ≠ .any → typeToTag env R = some p.tag) : (p.tag == tMerge) = false ∧ (p.tag == tValue) = false := by
  cases K with
  | str =>
    cases ha with
    | self _ _ _ =>
      have := ht (by intro h; cases h)
      simp only [typeToTag, scalarTag, Option.some.injEq] at this
      rw [← this]; exact ⟨by decide, by decide⟩
  | cls c =>
    cases ha with
    | self _ h _ => exact absurd rfl (h c)
    | cls hdesc hconc =>
      rename_i d
      have := ht (by intro h; cases h)
      simp only [typeToTag] at this
      split at this
      · simp only [Option.some.injEq] at this
        have hnm := bang_not_merge (v := "") (m := ⟨0, 0⟩) d
        simp only [NotMergeKey, Node.tag] at hnm
        rw [← this]; exact hnm
      · cases this
  | _ => simp [keyTypeOk] at hK

/-- the statement carried through the induction: the node loads to the value, the recognised type is
admitted by the declared one and its tag is the tag of the processed node -/
def LoadsT (env : Env) (tbl : List Entry) (fuel : Nat) (T : Ty) (v : PyVal) (n : Node) : Prop :=
  ∃ p cs R, processNode env tbl fuel n T = .ok p ∧ construct env tbl fuel p.node = .ok ⟨v, cs⟩ ∧
    Admits env T R ∧ (R ≠ .any → typeToTag env R = some p.node.tag)

theorem LoadsT.loads {env : Env} {tbl : List Entry} {fuel : Nat} {T : Ty} {v : PyVal} {n : Node}
    (h : LoadsT env tbl fuel T v n) : Loads env tbl fuel T v n := by
  obtain ⟨p, cs, _, hp, hc, _⟩ := h
  exact ⟨p, cs, hp, hc⟩

theorem RTcore_coreOut (env : Env) (tbl : List Entry) (fuel : Nat)
    (IH : ∀ T v n, RT env tbl fuel T v n → LoadsT env tbl fuel T v n) (R : Ty) (v : PyVal) (n : Node)
    (h : RTcore env tbl fuel (RT env tbl fuel) R v n) : CoreOut env tbl fuel R v n := by
  have hs : ∀ (R : Ty) (t : String), scalarTag R = some t → (∀ c, R ≠ .cls c) ∧ (∀ k i, R ≠ .seq k i) ∧
      (∀ k a b, R ≠ .map k a b) ∧ R ≠ .any := by
    intro R t h
    cases R <;> simp [scalarTag] at h <;> refine ⟨?_, ?_, ?_, ?_⟩ <;> intros <;> simp
  cases h with
  | str s m =>
    obtain ⟨h1, h2, h3, h4⟩ := hs .str tStr rfl
    exact coreOut_scalar env tbl fuel .str _ tStr s m h1 h2 h3 h4 rfl (by decide) (by simp [constructScalarCore])
  | int i s m hv =>
    obtain ⟨h1, h2, h3, h4⟩ := hs .int tInt rfl
    refine coreOut_scalar env tbl fuel .int _ tInt s m h1 h2 h3 h4 rfl (by decide) ?_
    have : (tInt == tStr) = false := by decide
    simp [constructScalarCore, this, hv]
  | float r i s m hv =>
    obtain ⟨h1, h2, h3, h4⟩ := hs .float tFloat rfl
    refine coreOut_scalar env tbl fuel .float _ tFloat s m h1 h2 h3 h4 rfl (by decide) ?_
    have a1 : (tFloat == tStr) = false := by decide
    have a2 : (tFloat == tInt) = false := by decide
    simp [constructScalarCore, a1, a2, hv]
  | bool b s m hv =>
    obtain ⟨h1, h2, h3, h4⟩ := hs .bool tBool rfl
    refine coreOut_scalar env tbl fuel .bool _ tBool s m h1 h2 h3 h4 rfl (by decide) ?_
    have a1 : (tBool == tStr) = false := by decide
    have a2 : (tBool == tInt) = false := by decide
    have a3 : (tBool == tFloat) = false := by decide
    simp [constructScalarCore, a1, a2, a3, hv]
  | boolFix b s m hv =>
    obtain ⟨h1, h2, h3, h4⟩ := hs .boolFix tBool rfl
    refine coreOut_scalar env tbl fuel .boolFix _ tBool s m h1 h2 h3 h4 rfl (by decide) ?_
    have a1 : (tBool == tStr) = false := by decide
    have a2 : (tBool == tInt) = false := by decide
    have a3 : (tBool == tFloat) = false := by decide
    simp [constructScalarCore, a1, a2, a3, hv]
  | null s m =>
    obtain ⟨h1, h2, h3, h4⟩ := hs .null tNull rfl
    refine coreOut_scalar env tbl fuel .null _ tNull s m h1 h2 h3 h4 rfl (by decide) ?_
    have a1 : (tNull == tStr) = false := by decide
    have a2 : (tNull == tInt) = false := by decide
    have a3 : (tNull == tFloat) = false := by decide
    have a4 : (tNull == tBool) = false := by decide
    simp [constructScalarCore, a1, a2, a3, a4]
  | date r s m hv =>
    obtain ⟨h1, h2, h3, h4⟩ := hs .date tTimestamp rfl
    refine coreOut_scalar env tbl fuel .date _ tTimestamp s m h1 h2 h3 h4 rfl (by decide) ?_
    have a1 : (tTimestamp == tStr) = false := by decide
    have a2 : (tTimestamp == tInt) = false := by decide
    have a3 : (tTimestamp == tFloat) = false := by decide
    have a4 : (tTimestamp == tBool) = false := by decide
    have a5 : (tTimestamp == tNull) = false := by decide
    simp [constructScalarCore, a1, a2, a3, a4, a5, hv]
  | path s m hnp => exact coreOut_path env tbl fuel s m hnp
  | seq k item xs ns m hall =>
    exact coreOut_seq env tbl fuel k item xs ns m (All2.imp (fun x nx hx => (IH item x nx hx).loads) hall)
  | map k K V kvs ps m hall hkeys hK =>
    refine coreOut_map env tbl fuel k K V kvs ps m (All2.imp ?_ hall) hkeys
    rintro e p ⟨hk, hv⟩
    obtain ⟨pk, ck, R', hpk, hck, hadm, htag⟩ := IH K e.1 p.1 hk
    exact ⟨⟨pk, ck, hpk, hck, key_not_merge env K R' pk.node hK hadm htag⟩, (IH V e.2 p.2 hv).loads⟩
  | enum c name m d members hd hk hmem hsav => exact coreOut_enum env tbl fuel c name m d members hd hk hmem hsav
  | userStr c s m d hd hk hinit hsav => exact coreOut_userStr env tbl fuel c s m d hd hk hinit hsav
  | obj c kw ps m d mainKw extraKw mainPs extraPs hd hk O =>
    exact coreOut_obj env tbl fuel c kw ps m d mainKw extraKw mainPs extraPs hd hk
      (O.imp (fun T v n h => (IH T v n h).loads))
  | any v n cs hc => exact coreOut_any env tbl fuel v n cs hc

/-- **Round trip at node level.**  A node that faithfully describes `v` for the declared type `T` loads
to `v`. -/
theorem RT_loadsT (env : Env) (tbl : List Entry) :
    ∀ (fuel : Nat) (T : Ty) (v : PyVal) (n : Node), RT env tbl fuel T v n → LoadsT env tbl fuel T v n
  | 0, _, _, _, h => by simp [RT] at h
  | fuel + 1, T, v, n, h => by
    simp only [RT] at h
    obtain ⟨R, leaves, hrec, hcore⟩ := h
    obtain ⟨p, cs, hp, hc, htag⟩ := RTcore_coreOut env tbl fuel (RT_loadsT env tbl fuel) R v n hcore
    refine ⟨p, cs, R, ?_, hc, ?_, htag⟩
    · rw [processNode_of_rec env tbl fuel n T R leaves hrec]; exact hp
    · exact recognize_admits env (fuel + 1) n T [R] leaves hrec R (List.mem_singleton.mpr rfl)

theorem RT_load (env : Env) (tbl : List Entry) (fuel : Nat) (T : Ty) (v : PyVal) (n : Node)
    (h : RT env tbl fuel T v n) :
    ∃ calls trace processed, loadNode env tbl fuel n T = .ok ⟨v, calls, trace, processed⟩ := by
  obtain ⟨p, cs, _, hp, hc, _⟩ := RT_loadsT env tbl fuel T v n h
  exact ⟨cs, p.trace, p.node, by simp [loadNode, hp, hc]⟩

end YatimlModel
