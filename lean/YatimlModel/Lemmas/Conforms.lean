import YatimlModel.Model.Load
import YatimlModel.Lemmas.RecSound
import YatimlModel.Lemmas.PlainData
import YatimlModel.Lemmas.AttrOps
/-!
Conformance of the root value, all the way down through containers:

* `Tagged env T n` — the shape of a tree that processing against type `T` leaves behind: the root
  carries the tag of a recognised type admitted by `T`, items of lists and keys/values of dicts are
  tagged for their own declared types, a tree under `Any` has core tags only;
* `processNode_tagged` — processing produces such a tree;
* `construct_conforms` — constructing such a tree yields a value that `typeMatches` the type
  (containers element-wise, unions member-wise, classes by `isinstance`).

What an object's *attributes* are is the business of the constructor's own check
(`Lemmas/CallsTyped`): every constructor call is type-checked, at any depth.
-/
namespace YatimlModel
open NodeOps

mutual
inductive Tagged (env : Env) : Ty → Node → Prop
  | mk {T R : Ty} {n : Node} : Admits env T R → TaggedR env R n → Tagged env T n
inductive TaggedR (env : Env) : Ty → Node → Prop
  | any {n : Node} : AllCore n → TaggedR env .any n
  | scalar {R : Ty} {n : Node} {t : String} : scalarTag R = some t → n.tag = t → TaggedR env R n
  | path {n : Node} : n.tag = "!Path" → TaggedR env .path n
  | seq {k : SeqKind} {item : Ty} {xs : Nodes} {m : Mark} :
      (∀ x, x ∈ xs.toList → Tagged env item x) → TaggedR env (.seq k item) (.seq tSeq xs m)
  | map {k : MapKind} {K V : Ty} {ps : Pairs} {m : Mark} :
      (∀ p, p ∈ ps.toList → Tagged env K p.1) → (∀ p, p ∈ ps.toList → Tagged env V p.2) →
      TaggedR env (.map k K V) (.map tMap ps m)
  | cls {c : String} {n : Node} : env.isRegistered c = true → n.tag = "!" ++ c →
      (∀ dd, env.find c = some dd → dd.kind = .plain → ∀ p, p ∈ dd.params →
        ∀ v, v ∈ valuesOf n.pairs p.name → Tagged env p.ty v) →
      TaggedR env (.cls c) n
end

theorem tag_setTag (n : Node) (t : String) : (n.setTag t).tag = t := by cases n <;> rfl

/-! ### processing leaves a tagged tree -/

theorem procItems_tagged (env : Env) (proc : Node → Ty → ProcRes) (T : Ty)
    (hp : ∀ x o, proc x T = .ok o → Tagged env T o.node) :
    ∀ (xs : List Node) (ys : List Node) (tr : List String), procItems proc T xs = .ok (ys, tr) →
      ∀ y ∈ ys, Tagged env T y := by
  intro xs
  induction xs with
  | nil => intro ys tr h; simp [procItems] at h; rw [h.1]; intro y hy; cases hy
  | cons x rest ih =>
    intro ys tr h
    unfold procItems at h
    split at h
    · cases h
    · rename_i o ho
      split at h
      · cases h
      · rename_i ys' tr' hr
        simp only [Except.ok.injEq, Prod.mk.injEq] at h
        rw [← h.1]
        intro y hy
        rcases List.mem_cons.mp hy with rfl | hy
        · exact hp x o ho
        · exact ih ys' tr' hr y hy

theorem procPairs_tagged (env : Env) (proc : Node → Ty → ProcRes) (K V : Ty)
    (hk : ∀ x o, proc x K = .ok o → Tagged env K o.node)
    (hv : ∀ x o, proc x V = .ok o → Tagged env V o.node) :
    ∀ (ps : List (Node × Node)) (qs : List (Node × Node)) (tr : List String),
      procPairs proc K V ps = .ok (qs, tr) → ∀ q ∈ qs, Tagged env K q.1 ∧ Tagged env V q.2 := by
  intro ps
  induction ps with
  | nil => intro qs tr h; simp [procPairs] at h; rw [h.1]; intro q hq; cases hq
  | cons p rest ih =>
    intro qs tr h
    obtain ⟨k, v⟩ := p
    unfold procPairs at h
    split at h
    · cases h
    · rename_i ko hko
      split at h
      · cases h
      · rename_i vo hvo
        split at h
        · cases h
        · rename_i qs' tr' hr
          simp only [Except.ok.injEq, Prod.mk.injEq] at h
          rw [← h.1]
          intro q hq
          rcases List.mem_cons.mp hq with rfl | hq
          · exact ⟨hk k ko hko, hv v vo hvo⟩
          · exact ih qs' tr' hr q hq

theorem pairs_setTag (n : Node) (t : String) : (n.setTag t).pairs = n.pairs := by cases n <;> rfl

/-- what the attribute loop of `__process_node` leaves behind: every occurrence of a parameter's key holds
a tree tagged for that parameter's type; keys that are not parameters are untouched -/
theorem procAttrs_tagged (env : Env) (proc : Node → Ty → ProcRes)
    (hp : ∀ x U o, proc x U = .ok o → Tagged env U o.node) :
    ∀ (params : List Param) (n n' : Node) (tr : List String), (params.map (·.name)).Nodup →
      procAttrs proc n params = .ok (n', tr) →
      (∀ p ∈ params, ∀ v, v ∈ valuesOf n'.pairs p.name → Tagged env p.ty v) ∧
      (∀ a, (∀ p ∈ params, p.name ≠ a) → valuesOf n'.pairs a = valuesOf n.pairs a) := by
  intro params
  induction params with
  | nil =>
    intro n n' tr _ h
    simp only [procAttrs, Except.ok.injEq, Prod.mk.injEq] at h
    rw [← h.1]
    exact ⟨fun p hp' => (by cases hp'), fun _ _ => rfl⟩
  | cons p rest ih =>
    intro n n' tr hnd h
    simp only [List.map_cons, List.nodup_cons] at hnd
    unfold procAttrs at h
    split at h
    · cases h
    · -- the key is absent
      rename_i hhas
      obtain ⟨ih1, ih2⟩ := ih n n' tr hnd.2 h
      have hnone : valuesOf n.pairs p.name = [] := by
        cases n with
        | map t ps m =>
          simp only [hasAttribute, Except.ok.injEq] at hhas
          exact valuesOf_nil_of_no_key _ _ hhas
        | scalar _ _ _ => rfl
        | seq _ _ _ => rfl
      refine ⟨?_, ?_⟩
      · intro q hq v hv
        rcases List.mem_cons.mp hq with rfl | hq
        · rw [ih2 q.name (fun r hr hne => hnd.1 (List.mem_map.mpr ⟨r, hr, hne⟩)), hnone] at hv
          cases hv
        · exact ih1 q hq v hv
      · intro a ha
        exact ih2 a (fun r hr => ha r (List.mem_cons_of_mem _ hr))
    · -- the key is present
      rename_i hhas
      split at h
      · cases h
      · rename_i sub hget
        split at h
        · cases h
        · rename_i o ho
          split at h
          · cases h
          · rename_i n1 hset
            split at h
            · cases h
            · rename_i n2 tr2 hrest
              simp only [Except.ok.injEq, Prod.mk.injEq] at h
              rw [← h.1]
              obtain ⟨ih1, ih2⟩ := ih n1 n2 tr2 hnd.2 hrest
              -- `n` is a mapping with exactly one value under the key
              cases n with
              | scalar _ _ _ => simp [getAttribute] at hget
              | seq _ _ _ => simp [getAttribute] at hget
              | map t ps m =>
                simp only [hasAttribute, Except.ok.injEq] at hhas
                have huniq : valuesOf ps.toList p.name = [sub] := by
                  simp only [getAttribute] at hget
                  split at hget
                  · rename_i v hv
                    simp only [Except.ok.injEq] at hget
                    rw [hv, hget]
                  · cases hget
                simp only [setAttribute, Except.ok.injEq] at hset
                have hn1 : n1.pairs = setFirst ps.toList p.name o.node := by
                  rw [← hset]; simp [Node.pairs]
                refine ⟨?_, ?_⟩
                · intro q hq v hv
                  rcases List.mem_cons.mp hq with rfl | hq
                  · rw [ih2 q.name (fun r hr hne => hnd.1 (List.mem_map.mpr ⟨r, hr, hne⟩)), hn1,
                      valuesOf_setFirst_same _ _ _ hhas, huniq] at hv
                    simp only [List.tail_cons, List.mem_singleton] at hv
                    subst hv
                    exact hp sub q.ty o ho
                  · exact ih1 q hq v hv
                · intro a ha
                  rw [ih2 a (fun r hr => ha r (List.mem_cons_of_mem _ hr)), hn1]
                  simp only [Node.pairs]
                  exact valuesOf_setFirst_ne _ _ _ _ (ha p List.mem_cons_self)

theorem typeToTag_scalar (env : Env) (R : Ty) (t : String) (h : scalarTag R = some t) : typeToTag env R = some t := by
  cases R <;> simp_all [scalarTag, typeToTag]

/-- **Processing leaves a tree tagged for its type.** -/
theorem processNode_tagged (env : Env) (tbl : List Entry) (htbl : TableCore tbl)
    (hpn : ∀ c d, env.find c = some d → (d.params.map (·.name)).Nodup) :
    ∀ (fuel : Nat) (n : Node) (T : Ty) (o : ProcOut), processNode env tbl fuel n T = .ok o →
      Tagged env T o.node := by
  intro fuel
  induction fuel with
  | zero => intro n T o h; simp [processNode] at h
  | succ fuel ih =>
    intro n T o h
    simp only [processNode] at h
    split at h
    · cases h
    · rename_i ts leaves hrec
      split at h
      · rename_i R
        have hadm : Admits env T R := recognize_admits env (fuel + 1) n T [R] leaves hrec R (by simp)
        split at h
        · cases h
        · rename_i n2 tr hsav
          split at h
          · cases h
          · rename_i n3 tr' hsub
            refine Tagged.mk hadm ?_
            unfold tagStep at h
            split at h
            · rename_i hany
              have : R = .any := by simpa using hany
              subst this
              simp only [Except.ok.injEq] at h
              rw [← h]
              exact TaggedR.any (stripTags_allCore tbl htbl n3)
            · rename_i hnotany
              split at h
              · rename_i tag htag
                simp only [Except.ok.injEq] at h
                rw [← h]
                dsimp only
                cases R with
                | any => simp at hnotany
                | union ms => simp [typeToTag] at htag
                | path =>
                  simp only [typeToTag, Option.some.injEq] at htag
                  exact TaggedR.path (by rw [tag_setTag]; exact htag.symm)
                | cls c =>
                  simp only [typeToTag] at htag
                  split at htag
                  · rename_i hreg
                    simp only [Option.some.injEq] at htag
                    refine TaggedR.cls hreg (by rw [tag_setTag]; exact htag.symm) ?_
                    intro dd hfd hplain q hq v hv
                    rw [pairs_setTag] at hv
                    simp only [subStep, hfd] at hsub
                    have hpl : dd.isPlain = true := by simp [ClassDef.isPlain, hplain]
                    rw [hpl] at hsub
                    simp only [Bool.true_and] at hsub
                    split at hsub
                    · exact (procAttrs_tagged env _ (fun x U o ho => ih x U o ho) dd.params n2 n3 tr'
                        (hpn c dd hfd) hsub).1 q hq v hv
                    · rename_i hnm
                      simp only [Except.ok.injEq, Prod.mk.injEq] at hsub
                      rw [← hsub.1] at hv
                      cases n2 with
                      | map _ _ _ => simp [Node.isMapNode] at hnm
                      | scalar _ _ _ => simp [Node.pairs, valuesOf] at hv
                      | seq _ _ _ => simp [Node.pairs, valuesOf] at hv
                  · cases htag
                | seq k item =>
                  simp only [typeToTag, Option.some.injEq] at htag
                  subst htag
                  simp only [subStep] at hsub
                  split at hsub
                  · rename_i t xs m
                    split at hsub
                    · cases hsub
                    · split at hsub
                      · cases hsub
                      · rename_i ys tr'' hitems
                        simp only [Except.ok.injEq, Prod.mk.injEq] at hsub
                        rw [← hsub.1]
                        simp only [Node.setTag]
                        apply TaggedR.seq
                        intro x hx
                        rw [Nodes.toList_ofList] at hx
                        exact procItems_tagged env _ item (fun x o ho => ih x item o ho) _ ys tr'' hitems x hx
                  · cases hsub
                | map k K V =>
                  simp only [typeToTag, Option.some.injEq] at htag
                  subst htag
                  simp only [subStep] at hsub
                  split at hsub
                  · rename_i t ps m
                    split at hsub
                    · cases hsub
                    · split at hsub
                      · cases hsub
                      · rename_i qs tr'' hpairs
                        simp only [Except.ok.injEq, Prod.mk.injEq] at hsub
                        rw [← hsub.1]
                        simp only [Node.setTag]
                        have hall := procPairs_tagged env _ K V (fun x o ho => ih x K o ho)
                          (fun x o ho => ih x V o ho) _ qs tr'' hpairs
                        apply TaggedR.map
                        · intro p hp
                          rw [Pairs.toList_ofList] at hp
                          exact (hall p hp).1
                        · intro p hp
                          rw [Pairs.toList_ofList] at hp
                          exact (hall p hp).2
                  · cases hsub
                | str => exact TaggedR.scalar (t := tag) (by simpa [typeToTag] using htag) (tag_setTag _ _)
                | int => exact TaggedR.scalar (t := tag) (by simpa [typeToTag] using htag) (tag_setTag _ _)
                | float => exact TaggedR.scalar (t := tag) (by simpa [typeToTag] using htag) (tag_setTag _ _)
                | bool => exact TaggedR.scalar (t := tag) (by simpa [typeToTag] using htag) (tag_setTag _ _)
                | boolFix => exact TaggedR.scalar (t := tag) (by simpa [typeToTag] using htag) (tag_setTag _ _)
                | null => exact TaggedR.scalar (t := tag) (by simpa [typeToTag] using htag) (tag_setTag _ _)
                | date => exact TaggedR.scalar (t := tag) (by simpa [typeToTag] using htag) (tag_setTag _ _)
              · cases h
      · cases h

/-! ### `typeMatches`, equation by equation -/

theorem tm_any (env : Env) (v : PyVal) : typeMatches env v .any = true := by
  unfold typeMatches; rfl
theorem tm_list (env : Env) (xs : PyVals) (k : SeqKind) (item : Ty) :
    typeMatches env (.list xs) (.seq k item) = typeMatchesAll env xs item := by
  unfold typeMatches; rfl
theorem tm_seq_notlist (env : Env) (v : PyVal) (k : SeqKind) (item : Ty) (h : ∀ xs, v ≠ .list xs) :
    typeMatches env v (.seq k item) = false := by
  cases v <;> first | (unfold typeMatches; rfl) | exact absurd rfl (h _)
theorem tm_dict (env : Env) (kvs : PyKVs) (k : MapKind) (K V : Ty) :
    typeMatches env (.dict kvs) (.map k K V) = typeMatchesKVs env kvs K V := by
  unfold typeMatches; rfl
theorem tm_map_notdict (env : Env) (v : PyVal) (k : MapKind) (K V : Ty) (h : ∀ kvs, v ≠ .dict kvs) :
    typeMatches env v (.map k K V) = false := by
  cases v <;> first | (unfold typeMatches; rfl) | exact absurd rfl (h _)
theorem tm_cls (env : Env) (v : PyVal) (c : String) : typeMatches env v (.cls c) = isInstanceOf env v c := by
  unfold typeMatches; rfl
theorem tm_union (env : Env) (v : PyVal) (ms : Tys) : typeMatches env v (.union ms) = typeMatchesAny env v ms := by
  unfold typeMatches; rfl

theorem typeMatchesAll_ofList (env : Env) (t : Ty) :
    ∀ (ys : List PyVal), (∀ y ∈ ys, typeMatches env y t = true) → typeMatchesAll env (PyVals.ofList ys) t = true := by
  intro ys
  induction ys with
  | nil => intro _; simp [PyVals.ofList, typeMatchesAll]
  | cons y rest ih =>
    intro h
    simp only [PyVals.ofList, typeMatchesAll, Bool.and_eq_true]
    exact ⟨h y List.mem_cons_self, ih (fun z hz => h z (List.mem_cons_of_mem _ hz))⟩

theorem typeMatchesAll_mono (env : Env) (t i : Ty) (hm : ∀ x, typeMatches env x t = true → typeMatches env x i = true) :
    ∀ (xs : PyVals), typeMatchesAll env xs t = true → typeMatchesAll env xs i = true
  | .nil, _ => by simp [typeMatchesAll]
  | .cons x xs, h => by
    simp only [typeMatchesAll, Bool.and_eq_true] at h ⊢
    exact ⟨hm x h.1, typeMatchesAll_mono env t i hm xs h.2⟩

theorem typeMatchesAny_of_mem (env : Env) (v : PyVal) (m : Ty) (hv : typeMatches env v m = true) :
    ∀ (ms : Tys), m ∈ ms.toList → typeMatchesAny env v ms = true
  | .nil, h => by simp [Tys.toList] at h
  | .cons t ts, h => by
    simp only [Tys.toList, List.mem_cons] at h
    simp only [typeMatchesAny, Bool.or_eq_true]
    rcases h with rfl | h
    · exact Or.inl hv
    · exact Or.inr (typeMatchesAny_of_mem env v m hv ts h)

theorem typeMatchesKVs_ofList (env : Env) (K V : Ty) :
    ∀ (kvs : List (PyVal × PyVal)),
      (∀ e ∈ kvs, keyMatches env e.1 K = true ∧ typeMatches env e.2 V = true) →
      typeMatchesKVs env (PyKVs.ofList kvs) K V = true := by
  intro kvs
  induction kvs with
  | nil => intro _; simp [PyKVs.ofList, typeMatchesKVs]
  | cons e rest ih =>
    intro h
    obtain ⟨k, v⟩ := e
    simp only [PyKVs.ofList, typeMatchesKVs, Bool.and_eq_true]
    have := h (k, v) List.mem_cons_self
    exact ⟨⟨this.1, this.2⟩, ih (fun z hz => h z (List.mem_cons_of_mem _ hz))⟩

theorem typeMatchesKVs_mono (env : Env) (K K' V V' : Ty)
    (hk : ∀ x, keyMatches env x K = true → keyMatches env x K' = true)
    (hv : ∀ x, typeMatches env x V = true → typeMatches env x V' = true) :
    ∀ (kvs : PyKVs), typeMatchesKVs env kvs K V = true → typeMatchesKVs env kvs K' V' = true
  | .nil, _ => by simp [typeMatchesKVs]
  | .cons k v r, h => by
    simp only [typeMatchesKVs, Bool.and_eq_true] at h ⊢
    exact ⟨⟨hk k h.1.1, hv v h.1.2⟩, typeMatchesKVs_mono env K K' V V' hk hv r h.2⟩

/-! ### the class table is consistent with Python's MRO -/

/-- Facts about the class table that hold for real Python classes (`ancestors` is the MRO without the
class itself, `bases` its direct bases) and that the model cannot derive by itself. -/
structure EnvWF (env : Env) : Prop where
  /-- no user class is called `Path` (the tag `!Path` is yatiml's own) -/
  noPath : env.find "Path" = none
  /-- a class reachable through registered direct-subclass steps has the starting class in its MRO -/
  anc : ∀ c d dd, Descends env c d → env.find d = some dd → c = d ∨ dd.ancestors.contains c = true
  /-- the MRO of a class contains the MROs of its members -/
  trans : ∀ e ee d dd c, env.find e = some ee → ee.ancestors.contains d = true → env.find d = some dd →
    dd.ancestors.contains c = true → ee.ancestors.contains c = true
  /-- the parameters of a constructor have distinct names -/
  paramNames : ∀ c d, env.find c = some d → (d.params.map (·.name)).Nodup

theorem isInstanceOf_up (env : Env) (hwf : EnvWF env) (v : PyVal) (c d : String) (hd : Descends env c d)
    (hc : Concrete env d) (h : isInstanceOf env v d = true) : isInstanceOf env v c = true := by
  obtain ⟨dd, hfd, _⟩ := hc
  unfold isInstanceOf at h ⊢
  dsimp only at h ⊢
  split at h
  · rename_i e _
    simp only [Bool.or_eq_true, beq_iff_eq] at h ⊢
    rcases h with he | he
    · subst he
      rw [hfd]
      rcases hwf.anc c e dd hd hfd with h1 | h1
      · exact Or.inl h1.symm
      · exact Or.inr h1
    · cases hfe : env.find e with
      | none => rw [hfe] at he; cases he
      | some ee =>
        rw [hfe] at he
        dsimp only at he ⊢
        rcases hwf.anc c d dd hd hfd with h1 | h1
        · subst h1; exact Or.inr he
        · exact Or.inr (hwf.trans e ee d dd c hfe he hfd h1)
  · cases h

/-- dict key types are `str` or a class (anything else makes yatiml raise RuntimeError anyway) -/
def KeyOk (k : Ty) : Prop := k = .str ∨ ∃ c, k = .cls c

mutual
def DictKeysOk : Ty → Prop
  | .union ms => DictKeysOkL ms
  | .seq _ i => DictKeysOk i
  | .map _ k v => KeyOk k ∧ DictKeysOk v
  | _ => True
def DictKeysOkL : Tys → Prop
  | .nil => True
  | .cons t ts => DictKeysOk t ∧ DictKeysOkL ts
end

theorem dictKeysOkL_mem : ∀ (ms : Tys), DictKeysOkL ms → ∀ m ∈ ms.toList, DictKeysOk m
  | .nil, _, m, hm => by simp [Tys.toList] at hm
  | .cons t ts, h, m, hm => by
    simp only [DictKeysOkL] at h
    simp only [Tys.toList, List.mem_cons] at hm
    rcases hm with rfl | hm
    · exact h.1
    · exact dictKeysOkL_mem ts h.2 m hm

theorem keyMatches_up (env : Env) (hwf : EnvWF env) {a t : Ty} (hok : KeyOk a) (h : Admits env a t) (v : PyVal)
    (hk : keyMatches env v t = true) : keyMatches env v a = true := by
  rcases hok with rfl | ⟨c, rfl⟩
  · cases h with
    | self _ _ _ => exact hk
  · cases h with
    | self _ h1 _ => exact absurd rfl (h1 c)
    | cls hd hc =>
      simp only [keyMatches] at hk ⊢
      exact isInstanceOf_up env hwf v _ _ hd hc hk

/-- a value of an admitted type is a value of the admitting type -/
theorem admits_typeMatches (env : Env) (hwf : EnvWF env) {T R : Ty} (h : Admits env T R) :
    DictKeysOk T → ∀ v, typeMatches env v R = true → typeMatches env v T = true := by
  induction h with
  | self T _ _ => intro _ v hv; exact hv
  | unionMem hm _ ih =>
    intro hT v hv
    simp only [DictKeysOk] at hT
    rw [tm_union]
    exact typeMatchesAny_of_mem env v _ (ih (dictKeysOkL_mem _ hT _ hm) v hv) _ hm
  | cls hd hc =>
    intro _ v hv
    rw [tm_cls] at hv ⊢
    exact isInstanceOf_up env hwf v _ _ hd hc hv
  | seqItem _ ih =>
    intro hT v hv
    simp only [DictKeysOk] at hT
    cases v with
    | list xs =>
      rw [tm_list] at hv ⊢
      exact typeMatchesAll_mono env _ _ (ih hT) xs hv
    | _ => rw [tm_seq_notlist _ _ _ _ (by intro xs h; cases h)] at hv; cases hv
  | mapKey ha _ =>
    intro hT v hv
    simp only [DictKeysOk] at hT
    cases v with
    | dict kvs =>
      rw [tm_dict] at hv ⊢
      exact typeMatchesKVs_mono env _ _ _ _ (fun x hx => keyMatches_up env hwf hT.1 ha x hx) (fun x hx => hx) kvs hv
    | _ => rw [tm_map_notdict _ _ _ _ _ (by intro xs h; cases h)] at hv; cases hv
  | mapVal _ ih =>
    intro hT v hv
    simp only [DictKeysOk] at hT
    cases v with
    | dict kvs =>
      rw [tm_dict] at hv ⊢
      exact typeMatchesKVs_mono env _ _ _ _ (fun x hx => hx) (ih hT.2) kvs hv
    | _ => rw [tm_map_notdict _ _ _ _ _ (by intro xs h; cases h)] at hv; cases hv

/-- the recognised type keeps the property -/
theorem admits_dictKeysOk (env : Env) {T R : Ty} (h : Admits env T R) : DictKeysOk T → DictKeysOk R := by
  induction h with
  | self T _ _ => exact id
  | unionMem hm _ ih => intro hT; simp only [DictKeysOk] at hT; exact ih (dictKeysOkL_mem _ hT _ hm)
  | cls _ _ => intro _; simp [DictKeysOk]
  | seqItem _ ih => intro hT; simp only [DictKeysOk] at hT ⊢; exact ih hT
  | mapKey ha _ =>
    intro hT
    simp only [DictKeysOk] at hT ⊢
    refine ⟨?_, hT.2⟩
    rcases hT.1 with rfl | ⟨c, rfl⟩
    · cases ha with
      | self _ _ _ => exact Or.inl rfl
    · cases ha with
      | self _ h1 _ => exact absurd rfl (h1 c)
      | cls _ _ => exact Or.inr ⟨_, rfl⟩
  | mapVal _ ih => intro hT; simp only [DictKeysOk] at hT ⊢; exact ⟨hT.1, ih hT.2⟩

/-! ### constructing a tagged tree -/

theorem consItems_values (cons : Node → ConsRes) (Q : PyVal → Prop) :
    ∀ (xs : List Node) (c0 : List Call) (ys : List PyVal) (cs : List Call),
      (∀ x ∈ xs, ∀ o, cons x = .ok o → Q o.value) → consItems cons xs c0 = .ok (ys, cs) → ∀ y ∈ ys, Q y := by
  intro xs
  induction xs with
  | nil => intro c0 ys cs _ h; simp [consItems] at h; rw [h.1]; intro y hy; cases hy
  | cons x rest ih =>
    intro c0 ys cs hq h
    unfold consItems at h
    split at h
    · cases h
    · rename_i o ho
      split at h
      · cases h
      · rename_i ys' cs' hr
        simp only [Except.ok.injEq, Prod.mk.injEq] at h
        rw [← h.1]
        intro y hy
        rcases List.mem_cons.mp hy with rfl | hy
        · exact hq x List.mem_cons_self o ho
        · exact ih _ ys' cs' (fun z hz => hq z (List.mem_cons_of_mem _ hz)) hr y hy

theorem dictSet_inv (P : PyVal × PyVal → Prop) (acc : List (PyVal × PyVal)) (k v : PyVal)
    (ha : ∀ e ∈ acc, P e) (hk : P (k, v)) (hrep : ∀ k' v', (k', v') ∈ acc → keyEq k' k = true → P (k', v)) :
    ∀ e ∈ dictSet acc k v, P e := by
  induction acc with
  | nil => intro e he; simp [dictSet] at he; subst he; exact hk
  | cons a rest ih =>
    obtain ⟨k', v'⟩ := a
    intro e he
    simp only [dictSet] at he
    split at he
    · rename_i heq
      rcases List.mem_cons.mp he with rfl | he
      · exact hrep k' v' List.mem_cons_self heq
      · exact ha e (List.mem_cons_of_mem _ he)
    · rcases List.mem_cons.mp he with rfl | he
      · exact ha _ List.mem_cons_self
      · exact ih (fun x hx => ha x (List.mem_cons_of_mem _ hx))
          (fun k'' v'' h1 h2 => hrep k'' v'' (List.mem_cons_of_mem _ h1) h2) e he

/-- the entries of a constructed mapping: every key satisfies `PK`, every value `PV` -/
theorem consPairs_values (cons : Node → ConsRes) (PK PV : PyVal → Prop) :
    ∀ (ps : List (Node × Node)) (acc : List (PyVal × PyVal)) (c0 : List Call)
      (kvs : List (PyVal × PyVal)) (cs : List Call),
      (∀ p ∈ ps, (∀ o, cons p.1 = .ok o → PK o.value) ∧ (∀ o, cons p.2 = .ok o → PV o.value)) →
      (∀ e ∈ acc, PK e.1 ∧ PV e.2) → consPairs cons ps acc c0 = .ok (kvs, cs) →
      ∀ e ∈ kvs, PK e.1 ∧ PV e.2 := by
  intro ps
  induction ps with
  | nil => intro acc c0 kvs cs _ ha h; simp [consPairs] at h; rw [← h.1]; exact ha
  | cons p rest ih =>
    intro acc c0 kvs cs hp ha h
    obtain ⟨k, v⟩ := p
    unfold consPairs at h
    have hkv := hp (k, v) List.mem_cons_self
    split at h
    · cases h
    · rename_i ko hko
      split at h
      · cases h
      · split at h
        · cases h
        · rename_i vo hvo
          refine ih _ _ kvs cs (fun q hq => hp q (List.mem_cons_of_mem _ hq)) ?_ h
          apply dictSet_inv (fun e => PK e.1 ∧ PV e.2) acc ko.value vo.value ha ⟨hkv.1 ko hko, hkv.2 vo hvo⟩
          intro k' v' hmem _
          exact ⟨(ha (k', v') hmem).1, hkv.2 vo hvo⟩

theorem flattenStep_id (flat : List (Node × Node) → Option (List (Node × Node))) :
    ∀ (ps : List (Node × Node)), (∀ p ∈ ps, (p.1.tag == tMerge) = false ∧ (p.1.tag == tValue) = false) →
      flattenStep flat ps = some ([], ps) := by
  intro ps
  induction ps with
  | nil => intro _; rfl
  | cons p rest ih =>
    intro h
    have hp := h p List.mem_cons_self
    simp only [flattenStep, ih (fun q hq => h q (List.mem_cons_of_mem _ hq)), hp.1, hp.2,
      Bool.false_eq_true, if_false]

theorem flattenPairs_id (fuel : Nat) (ps : List (Node × Node))
    (h : ∀ p ∈ ps, (p.1.tag == tMerge) = false ∧ (p.1.tag == tValue) = false) :
    flattenPairs (fuel + 1) ps = some ps := by
  simp [flattenPairs, flattenStep_id _ ps h]

theorem isRegistered_find (env : Env) (c : String) (h : env.isRegistered c = true) :
    ∃ d, env.find c = some d ∧ d.name = c := by
  unfold Env.isRegistered at h
  rw [List.any_eq_true] at h
  obtain ⟨d, hd, hn⟩ := h
  unfold Env.find
  cases hf : env.registered.find? (fun d => d.name == c) with
  | none =>
    have := List.find?_eq_none.mp hf d hd
    exact absurd hn this
  | some d' =>
    have := List.find?_some hf
    exact ⟨d', rfl, by simpa using this⟩

theorem byTag_bang' (env : Env) (c : String) : env.byTag ("!" ++ c) = env.find c := by
  have h1 : hasPrefix "!" ("!" ++ c) = true := by
    simp [hasPrefix, String.toList_append, List.isPrefixOf]
  have h2 : String.ofList (("!" ++ c).toList.drop 1) = c := by
    simp [String.toList_append, String.ofList_toList]
  simp [Env.byTag, h1, h2]

theorem bang_ne_core (c t : String) (ht : hasPrefix corePrefix t = true) : ("!" ++ c == t) = false := by
  cases hb : ("!" ++ c == t) with
  | false => rfl
  | true =>
    have : "!" ++ c = t := by simpa using hb
    have h1 : hasPrefix "!" t = true := by
      rw [← this]; simp [hasPrefix, String.toList_append, List.isPrefixOf]
    rw [hasPrefix_core_not_bang t ht] at h1
    cases h1

theorem scalarTag_core (R : Ty) (t : String) (h : scalarTag R = some t) :
    hasPrefix corePrefix t = true ∧ (t == tSeq) = false ∧ (t == tMap) = false := by
  cases R <;> simp [scalarTag] at h <;> subst h <;> decide

theorem scalarCore_typed (env : Env) (R : Ty) (t v : String) (m : Mark) (x : PyVal)
    (ht : scalarTag R = some t) (h : constructScalarCore env.ext t v m = .ok x) :
    typeMatches env x R = true := by
  cases R <;> simp [scalarTag] at ht <;> subst ht
  · -- str
    simp [constructScalarCore, tStr] at h
    subst h; unfold typeMatches; rfl
  · -- int
    simp only [constructScalarCore, show (tInt == tStr) = false by decide,
      Bool.false_eq_true, if_false, beq_self_eq_true, if_true] at h
    cases hc : constructInt v with
    | none => simp [hc] at h
    | some i => simp only [hc, Except.ok.injEq] at h; subst h; unfold typeMatches; rfl
  · -- float
    simp only [constructScalarCore, show (tFloat == tStr) = false by decide, show (tFloat == tInt) = false by decide,
      Bool.false_eq_true, if_false, beq_self_eq_true, if_true] at h
    cases hc : env.ext.yamlFloat v with
    | none => simp [hc] at h
    | some r => simp only [hc, Except.ok.injEq] at h; subst h; unfold typeMatches; rfl
  · -- bool
    simp only [constructScalarCore, show (tBool == tStr) = false by decide, show (tBool == tInt) = false by decide,
      show (tBool == tFloat) = false by decide, Bool.false_eq_true, if_false, beq_self_eq_true, if_true] at h
    cases hc : constructBool v with
    | none => simp [hc] at h
    | some b => simp only [hc, Except.ok.injEq] at h; subst h; unfold typeMatches; rfl
  · -- boolFix
    simp only [constructScalarCore, show (tBool == tStr) = false by decide, show (tBool == tInt) = false by decide,
      show (tBool == tFloat) = false by decide, Bool.false_eq_true, if_false, beq_self_eq_true, if_true] at h
    cases hc : constructBool v with
    | none => simp [hc] at h
    | some b => simp only [hc, Except.ok.injEq] at h; subst h; unfold typeMatches; rfl
  · -- null
    simp only [constructScalarCore, show (tNull == tStr) = false by decide, show (tNull == tInt) = false by decide,
      show (tNull == tFloat) = false by decide, show (tNull == tBool) = false by decide,
      Bool.false_eq_true, if_false, beq_self_eq_true, if_true, Except.ok.injEq] at h
    subst h; unfold typeMatches; rfl
  · -- date
    simp only [constructScalarCore, show (tTimestamp == tStr) = false by decide,
      show (tTimestamp == tInt) = false by decide, show (tTimestamp == tFloat) = false by decide,
      show (tTimestamp == tBool) = false by decide, show (tTimestamp == tNull) = false by decide,
      Bool.false_eq_true, if_false, beq_self_eq_true, if_true] at h
    cases hc : env.ext.yamlTimestamp v with
    | none => simp [hc] at h
    | some r => simp only [hc, Except.ok.injEq] at h; subst h; unfold typeMatches; rfl

theorem keyMatches_of_typeMatches (env : Env) (K : Ty) (hK : KeyOk K) (v : PyVal)
    (h : typeMatches env v K = true) : keyMatches env v K = true := by
  rcases hK with rfl | ⟨c, rfl⟩
  · cases v <;> first | (unfold typeMatches at h; simpa [keyMatches] using h)
  · rw [tm_cls] at h; simpa [keyMatches] using h

theorem key_tag_plain (env : Env) (K : Ty) (hK : KeyOk K) (k : Node) (h : Tagged env K k) :
    (k.tag == tMerge) = false ∧ (k.tag == tValue) = false := by
  cases h with
  | mk hadm hr =>
    rcases hK with rfl | ⟨c, rfl⟩
    · cases hadm with
      | self _ _ _ =>
        cases hr with
        | scalar ht htag =>
          simp [scalarTag] at ht
          rw [htag, ← ht]
          decide
    · cases hadm with
      | self _ h1 _ => exact absurd rfl (h1 c)
      | cls _ _ =>
        cases hr with
        | scalar ht _ => simp [scalarTag] at ht
        | cls _ htag _ =>
          rw [htag]
          exact ⟨bang_ne_core _ tMerge (by decide), bang_ne_core _ tValue (by decide)⟩

/-- the value built for a node whose tag names a registered class is an instance of that very class -/
theorem construct_cls_value (env : Env) (tbl : List Entry) (fuel : Nat) (n : Node) (dd : ClassDef) (o : ConsOut)
    (hb : env.byTag n.tag = some dd) (h : construct env tbl (fuel + 1) n = .ok o) :
    (∃ v, o.value = .enumMember dd.name v) ∨ (∃ v, o.value = .userStr dd.name v) ∨
    (∃ kw, o.value = .obj dd.name kw) := by
  unfold construct at h
  dsimp only at h
  rw [hb] at h
  dsimp only at h
  split at h
  · -- enum
    split at h
    · split at h
      · simp only [Except.ok.injEq] at h; rw [← h]; exact Or.inl ⟨_, rfl⟩
      · cases h
    · cases h
  · -- string-like
    split at h
    · split at h
      · cases h
      · simp only [Except.ok.injEq] at h; rw [← h]; exact Or.inr (Or.inl ⟨_, rfl⟩)
    · cases h
  · -- plain
    split at h
    · split at h
      · cases h
      · split at h
        · cases h
        · split at h
          · cases h
          · split at h
            · cases h
            · split at h
              · cases h
              · split at h
                · cases h
                · simp only [Except.ok.injEq] at h; rw [← h]; exact Or.inr (Or.inr ⟨_, rfl⟩)
    · cases h

theorem isInstanceOf_own (env : Env) (v : PyVal) (c : String)
    (h : (∃ x, v = .enumMember c x) ∨ (∃ x, v = .userStr c x) ∨ (∃ kw, v = .obj c kw)) :
    isInstanceOf env v c = true := by
  rcases h with ⟨x, rfl⟩ | ⟨x, rfl⟩ | ⟨kw, rfl⟩ <;> simp [isInstanceOf]

/-- **Constructing a tagged tree gives a value of the type.** -/
theorem construct_conforms (env : Env) (tbl : List Entry) (hwf : EnvWF env) :
    ∀ (fuel : Nat) (n : Node) (T : Ty) (o : ConsOut), Tagged env T n → DictKeysOk T →
      construct env tbl fuel n = .ok o → typeMatches env o.value T = true := by
  intro fuel
  induction fuel with
  | zero => intro n T o _ _ h; simp [construct] at h
  | succ fuel ih =>
    intro n T o htag hT h
    cases htag with
    | mk hadm hr =>
      apply admits_typeMatches env hwf hadm hT
      have hR := admits_dictKeysOk env hadm hT
      cases hr with
      | any _ => exact tm_any env _
      | scalar ht htg =>
        rename_i t
        obtain ⟨hcore, hns, hnm⟩ := scalarTag_core _ t ht
        unfold construct at h
        dsimp only at h
        rw [htg, byTag_core env t hcore] at h
        dsimp only at h
        rw [core_ne_path t hcore] at h
        simp only [Bool.false_eq_true, if_false] at h
        cases n with
        | scalar t' v m =>
          simp only [Node.tag] at htg
          subst htg
          dsimp only at h
          split at h
          · rename_i x hx
            simp only [Except.ok.injEq] at h
            rw [← h]
            exact scalarCore_typed env _ _ v m x ht hx
          · cases h
        | seq t' xs m =>
          simp only [Node.tag] at htg
          subst htg
          dsimp only at h
          rw [hns] at h
          simp at h
        | map t' ps m =>
          simp only [Node.tag] at htg
          subst htg
          dsimp only at h
          rw [hnm] at h
          simp at h
      | path htg =>
        unfold construct at h
        dsimp only at h
        have hb : env.byTag "!Path" = none := by
          have := byTag_bang' env "Path"
          rw [hwf.noPath] at this
          exact this
        rw [htg, hb] at h
        simp only [beq_self_eq_true, if_true] at h
        split at h
        · simp only [Except.ok.injEq] at h
          rw [← h]
          unfold typeMatches; rfl
        · cases h
      | seq hitems =>
        rename_i k item xs m
        unfold construct at h
        dsimp only at h
        have hb : env.byTag (Node.seq tSeq xs m).tag = none := byTag_core env tSeq (by decide)
        have hp : ((Node.seq tSeq xs m).tag == "!Path") = false := core_ne_path tSeq (by decide)
        rw [hb] at h
        dsimp only at h
        simp only [hp, Bool.false_eq_true, if_false, beq_self_eq_true, if_true] at h
        split at h
        · cases h
        · rename_i ys calls hc
          simp only [Except.ok.injEq] at h
          rw [← h]
          rw [tm_list]
          apply typeMatchesAll_ofList
          simp only [DictKeysOk] at hR
          exact consItems_values (construct env tbl fuel) (fun y => typeMatches env y item = true) xs.toList [] ys calls
            (fun x hx o' ho' => ih x item o' (hitems x hx) hR ho') hc
      | map hkeys hvals =>
        rename_i k K V ps m
        simp only [DictKeysOk] at hR
        unfold construct at h
        dsimp only at h
        have hb : env.byTag (Node.map tMap ps m).tag = none := byTag_core env tMap (by decide)
        have hp : ((Node.map tMap ps m).tag == "!Path") = false := core_ne_path tMap (by decide)
        rw [hb] at h
        dsimp only at h
        simp only [hp, Bool.false_eq_true, if_false, beq_self_eq_true, if_true] at h
        rw [flattenPairs_id fuel ps.toList (fun p hp => key_tag_plain env K hR.1 p.1 (hkeys p hp))] at h
        dsimp only at h
        split at h
        · cases h
        · rename_i kvs calls hc
          simp only [Except.ok.injEq] at h
          rw [← h]
          rw [tm_dict]
          apply typeMatchesKVs_ofList
          have hKd : DictKeysOk K := by
            rcases hR.1 with rfl | ⟨c, rfl⟩ <;> simp [DictKeysOk]
          exact consPairs_values (construct env tbl fuel) (fun y => keyMatches env y K = true)
            (fun y => typeMatches env y V = true) ps.toList [] [] kvs calls
            (fun p hp => ⟨fun o' ho' => keyMatches_of_typeMatches env K hR.1 _ (ih p.1 K o' (hkeys p hp) hKd ho'),
                          fun o' ho' => ih p.2 V o' (hvals p hp) hR.2 ho'⟩)
            (by intro e he; cases he) hc
      | @cls c _ hreg htg _ =>
        obtain ⟨dd, hfd, hname⟩ := isRegistered_find env c hreg
        have hb : env.byTag n.tag = some dd := by rw [htg, byTag_bang']; exact hfd
        rw [tm_cls]
        apply isInstanceOf_own
        have := construct_cls_value env tbl fuel n dd o hb h
        rw [hname] at this
        exact this

/-- **Root conformance.**  If a load succeeds, the value it returns is of the declared type: built-ins of
exactly their kind, lists and dicts element-wise (keys included), a Union by one of its members, a class
by an instance of that class or of a registered class derived from it, `Any` anything (plain data, by
`C01_any_is_plain`). -/
theorem loadNode_conforms (env : Env) (tbl : List Entry) (htbl : TableCore tbl) (hwf : EnvWF env)
    (fuel : Nat) (n : Node) (T : Ty) (hT : DictKeysOk T) (o : LoadOut)
    (h : loadNode env tbl fuel n T = .ok o) : typeMatches env o.value T = true := by
  unfold loadNode at h
  split at h
  · cases h
  · rename_i p hp
    split at h
    · cases h
    · rename_i c hc
      simp only [Except.ok.injEq] at h
      rw [← h]
      exact construct_conforms env tbl hwf fuel p.node T c
        (processNode_tagged env tbl htbl hwf.paramNames fuel n T p hp) hT hc

end YatimlModel
