import YatimlModel.Model.Recognize
import YatimlModel.Lemmas.RecComplete
/-!
Whenever recognition does not single out exactly one type (no type, or several), every leaf of the
error it returns cites at least one position, and there is at least one leaf.  (This is what F15 and F18
violated; the statement holds for the recogniser as repaired, for every class model, custom recognisers
included.)
-/
namespace YatimlModel

/-- leaves of an error: at least one, each with a position -/
def Good (ls : List Leaf) : Prop := ls ≠ [] ∧ ∀ l ∈ ls, l.marks ≠ []

/-- the result is fine: exactly one type, or good leaves -/
def PosOk (r : RecRes) : Prop :=
  match r with
  | .ok (ts, ls) => ts.length ≠ 1 → Good ls
  | .error _ => True

theorem good_single (m : Mark) (keys : List String) : Good [⟨[m], keys⟩] := by
  refine ⟨by simp, ?_⟩
  intro l hl
  simp only [List.mem_singleton] at hl
  subst hl; simp

theorem posOk_recFail (m : Mark) (rest : List Mark) (keys : List String) : PosOk (recFail (m :: rest) keys) := by
  intro _
  refine ⟨by simp, ?_⟩
  intro l hl
  simp only [List.mem_singleton] at hl
  subst hl; simp

theorem posOk_recOk (T : Ty) : PosOk (recOk T) := by
  intro h; simp at h

def CausesOk (causes : List (List Leaf)) : Prop := ∀ c ∈ causes, Good c

theorem good_flatten (causes : List (List Leaf)) (h : CausesOk causes) (hne : causes ≠ []) : Good causes.flatten := by
  obtain ⟨c, hc⟩ := List.exists_mem_of_ne_nil causes hne
  refine ⟨?_, ?_⟩
  · obtain ⟨l, hl⟩ := List.exists_mem_of_ne_nil c (h c hc).1
    exact List.ne_nil_of_mem (List.mem_flatten.mpr ⟨c, hc, hl⟩)
  · intro l hl
    obtain ⟨c', hc', hl'⟩ := List.mem_flatten.mp hl
    exact (h c' hc').2 l hl'

theorem good_leavesOf (own : Leaf) (causes : List (List Leaf)) (hc : CausesOk causes)
    (hown : causes = [] → own.marks ≠ []) : Good (leavesOf own causes) := by
  unfold leavesOf
  split
  · rename_i he
    have : causes = [] := by simpa using he
    refine ⟨by simp, ?_⟩
    intro l hl
    simp only [List.mem_singleton] at hl
    subst hl; exact hown this
  · rename_i he
    exact good_flatten causes hc (by simpa using he)

theorem causesOk_append (causes : List (List Leaf)) (c : List Leaf) (h : CausesOk causes) (hc : Good c) :
    CausesOk (causes ++ [c]) := by
  intro x hx
  rcases List.mem_append.mp hx with h1 | h1
  · exact h x h1
  · simp only [List.mem_singleton] at h1; subst h1; exact hc

/-! ### lists, dicts -/

def AmbPos (amb : Option RecOut) : Prop := ∀ r, amb = some r → Good r.2

theorem ambPos_none : AmbPos none := by intro r h; cases h

theorem noteAmb_pos (amb : Option RecOut) (ha : AmbPos amb) (ts : List Ty) (wrap : Ty → Ty) (ls : List Leaf)
    (h : ts.length > 1 → Good ls) : AmbPos (noteAmb amb ts wrap ls) := by
  unfold noteAmb
  split
  · exact ha
  · split
    · rename_i hgt
      intro r hr
      simp only [Option.some.injEq] at hr
      subst hr
      exact h (by simpa using hgt)
    · exact ambPos_none

theorem recDone_pos (T : Ty) (amb : Option RecOut) (ha : AmbPos amb) : PosOk (recDone T amb) := by
  unfold recDone
  split
  · rename_i r
    intro _
    exact ha r rfl
  · exact posOk_recOk T

theorem recListItems_pos (rec : Node → Ty → RecRes) (T itemTy : Ty) (hrec : ∀ x, PosOk (rec x itemTy)) :
    ∀ (items : List Node) (amb : Option RecOut), AmbPos amb → PosOk (recListItems rec T itemTy amb items) := by
  intro items
  induction items with
  | nil => intro amb ha; simp only [recListItems]; exact recDone_pos T amb ha
  | cons x xs ih =>
    intro amb ha
    unfold recListItems
    have hx := hrec x
    split
    · trivial
    · rename_i ts ls hr
      rw [hr] at hx
      split
      · rename_i h0
        intro _
        exact hx (by have := (len0_iff ts).mp h0; simp [this])
      · apply ih
        apply noteAmb_pos _ ha
        intro hgt
        exact hx (by omega)

theorem recDictPairs_pos (rec : Node → Ty → RecRes) (T K V : Ty) (hk : ∀ x, PosOk (rec x K)) (hv : ∀ x, PosOk (rec x V)) :
    ∀ (ps : List (Node × Node)) (amb : Option RecOut), AmbPos amb → PosOk (recDictPairs rec T K V amb ps) := by
  intro ps
  induction ps with
  | nil => intro amb ha; simp only [recDictPairs]; exact recDone_pos T amb ha
  | cons p ps ih =>
    intro amb ha
    obtain ⟨k, v⟩ := p
    unfold recDictPairs
    have h1 := hk k
    have h2 := hv v
    split
    · trivial
    · rename_i kts kl hr
      rw [hr] at h1
      split
      · rename_i h0
        intro _
        exact h1 (by have := (len0_iff kts).mp h0; simp [this])
      · split
        · trivial
        · rename_i vts vl hr2
          rw [hr2] at h2
          split
          · rename_i h0
            intro _
            exact h2 (by have := (len0_iff vts).mp h0; simp [this])
          · apply ih
            apply noteAmb_pos
            · apply noteAmb_pos _ ha
              intro hgt; exact h1 (by omega)
            · intro hgt; exact h2 (by omega)

/-! ### unions -/

theorem recUnionMembers_causes (rec : Node → Ty → RecRes) (n : Node) (hrec : ∀ m, PosOk (rec n m)) :
    ∀ (ms : List Ty) (acc acc' : UnionAcc), CausesOk acc.causes →
      recUnionMembers rec n ms acc = .ok acc' → CausesOk acc'.causes := by
  intro ms
  induction ms with
  | nil =>
    intro acc acc' hc h
    simp only [recUnionMembers, Except.ok.injEq] at h
    subst h; exact hc
  | cons m rest ih =>
    intro acc acc' hc h
    unfold recUnionMembers at h
    have hm := hrec m
    split at h
    · cases h
    · rename_i ts ls hr
      rw [hr] at hm
      apply ih _ acc' _ h
      dsimp only
      split
      · rename_i h0
        exact causesOk_append _ _ hc (hm (by have := (len0_iff ts).mp h0; simp [this]))
      · exact hc

theorem recUnion_pos (rec : Node → Ty → RecRes) (n : Node) (ms : List Ty) (hrec : ∀ m, PosOk (rec n m)) :
    PosOk (recUnion rec n ms) := by
  unfold recUnion
  split
  · trivial
  · rename_i acc hacc
    have hc := recUnionMembers_causes rec n hrec ms ⟨[], []⟩ acc (by intro c h; cases h) hacc
    dsimp only
    split
    · rename_i h1
      intro hne
      exact absurd (by simpa using h1) hne
    · intro _
      exact good_leavesOf _ _ hc (fun _ => by simp)

/-! ### classes -/

theorem tryAttrName_pos (rec : Node → Ty → RecRes) (ps : List (Node × Node)) (ty : Ty) (name : String)
    (hrec : ∀ v, PosOk (rec v ty)) (leaves : List Leaf)
    (h : tryAttrName rec ps ty name = some (.ok (some leaves))) : Good leaves := by
  unfold tryAttrName at h
  split at h
  · simp only [Option.some.injEq] at h
    split at h
    · rename_i v _
      have hv := hrec v
      split at h
      · cases h
      · rename_i ts ls hr
        rw [hr] at hv
        split at h
        · rename_i h0
          simp only [Except.ok.injEq, Option.some.injEq] at h
          subst h
          exact hv (by have := (len0_iff ts).mp h0; simp [this])
        · cases h
    · cases h
  · cases h

theorem recAttr_pos (rec : Node → Ty → RecRes) (n : Node) (ps : List (Node × Node)) (p : Param)
    (hrec : ∀ v, PosOk (rec v p.ty)) (leaves : List Leaf) (h : recAttr rec n ps p = .ok (some leaves)) :
    Good leaves := by
  unfold recAttr at h
  split at h
  · rename_i r hr
    subst h
    exact tryAttrName_pos rec ps p.ty p.name hrec leaves hr
  · split at h
    · rename_i r hr
      subst h
      exact tryAttrName_pos rec ps p.ty (dashed p.name) hrec leaves hr
    · split at h
      · simp only [Except.ok.injEq, Option.some.injEq] at h
        subst h
        exact good_single _ _
      · cases h

theorem recAttrs_pos (rec : Node → Ty → RecRes) (n : Node) (ps : List (Node × Node))
    (hrec : ∀ v U, PosOk (rec v U)) :
    ∀ (params : List Param) (leaves : List Leaf), recAttrs rec n ps params = .ok (some leaves) → Good leaves := by
  intro params
  induction params with
  | nil => intro leaves h; simp [recAttrs] at h
  | cons p rest ih =>
    intro leaves h
    unfold recAttrs at h
    split at h
    · cases h
    · rename_i l hp
      simp only [Except.ok.injEq, Option.some.injEq] at h
      subst h
      exact recAttr_pos rec n ps p (fun v => hrec v p.ty) l hp
    · exact ih leaves h

theorem recUserClass_pos (env : Env) (rec : Node → Ty → RecRes) (n : Node) (d : ClassDef)
    (hrec : ∀ v U, PosOk (rec v U)) : PosOk (recUserClass env rec n d) := by
  unfold recUserClass
  split
  · split
    · trivial
    · exact posOk_recOk _
    · exact posOk_recFail _ _ _
  · split
    · split
      · split
        · exact posOk_recOk _
        · exact posOk_recFail _ _ _
      · exact posOk_recFail _ _ _
    · split
      · split
        · exact posOk_recOk _
        · exact posOk_recFail _ _ _
      · exact posOk_recFail _ _ _
    · split
      · split
        · trivial
        · exact posOk_recOk _
        · rename_i leaves hra
          intro _
          exact recAttrs_pos rec _ _ hrec d.params leaves hra
      · exact posOk_recFail _ _ _

theorem recSubclasses_causes (recC : ClassDef → RecRes) (hrec : ∀ d, PosOk (recC d)) :
    ∀ (ds : List ClassDef) (acc acc' : ClsAcc), CausesOk acc.causes →
      recSubclasses recC ds acc = .ok acc' → CausesOk acc'.causes := by
  intro ds
  induction ds with
  | nil =>
    intro acc acc' hc h
    simp only [recSubclasses, Except.ok.injEq] at h
    subst h; exact hc
  | cons d rest ih =>
    intro acc acc' hc h
    unfold recSubclasses at h
    have hd := hrec d
    split at h
    · cases h
    · rename_i ts ls hr
      rw [hr] at hd
      apply ih _ acc' _ h
      dsimp only
      split
      · rename_i h0
        exact causesOk_append _ _ hc (hd (by have := (len0_iff ts).mp h0; simp [this]))
      · exact hc

theorem finishClasses_pos (env : Env) (n : Node) (top : Bool) (ts : List Ty) (causes : List (List Leaf))
    (hc : CausesOk causes) : PosOk (finishClasses env n top ts causes) := by
  unfold finishClasses
  split
  · intro _
    apply good_leavesOf _ _ hc
    intro he
    simp [he]
  · split
    · split
      · split
        · exact posOk_recOk _
        · intro _; exact good_leavesOf _ _ hc (fun _ => by simp)
      · intro _; exact good_leavesOf _ _ hc (fun _ => by simp)
    · rename_i h0 h1
      have hlen : ts.length = 1 := by
        have a : ¬ ts.length = 0 := by simpa using h0
        have b : ¬ ts.length > 1 := by simpa using h1
        omega
      split
      · split
        · split
          · intro hne; exact absurd hlen hne
          · exact posOk_recFail _ _ _
        · exact posOk_recFail _ _ _
      · intro hne; exact absurd hlen hne

theorem recScalar_pos (n : Node) (T : Ty) (tag : String) : PosOk (recScalar n T tag) := by
  unfold recScalar
  split
  · split
    · exact posOk_recOk _
    · exact posOk_recFail _ _ _
  · exact posOk_recFail _ _ _

/-- **Every recognition failure is positioned.** -/
theorem recognizeReq_pos (env : Env) : ∀ (fuel : Nat) (n : Node) (q : Req), PosOk (recognizeReq env fuel n q) := by
  intro fuel
  induction fuel with
  | zero => intro n q; simp [recognizeReq, PosOk]
  | succ fuel ih =>
    intro n q
    have ihT : ∀ x U, PosOk (recognizeReq env fuel x (.ty U)) := fun x U => ih x (.ty U)
    cases q with
    | ty T =>
      cases T with
      | union ms => simp only [recognizeReq]; exact recUnion_pos _ n _ (fun m => ihT n m)
      | seq k item =>
        simp only [recognizeReq, recList]
        split
        · exact recListItems_pos _ _ _ (fun x => ihT x item) _ _ ambPos_none
        · exact posOk_recFail _ _ _
      | map k a b =>
        simp only [recognizeReq, recDict]
        split
        · trivial
        · split
          · exact recDictPairs_pos _ _ _ _ (fun x => ihT x a) (fun x => ihT x b) _ _ ambPos_none
          · exact posOk_recFail _ _ _
      | cls c =>
        simp only [recognizeReq]
        split
        · exact ih n (.classes c true)
        · trivial
      | any => simp only [recognizeReq]; exact posOk_recOk _
      | str => simp only [recognizeReq]; exact recScalar_pos _ _ _
      | int => simp only [recognizeReq]; exact recScalar_pos _ _ _
      | float => simp only [recognizeReq]; exact recScalar_pos _ _ _
      | bool => simp only [recognizeReq]; exact recScalar_pos _ _ _
      | boolFix => simp only [recognizeReq]; exact recScalar_pos _ _ _
      | null => simp only [recognizeReq]; exact recScalar_pos _ _ _
      | date => simp only [recognizeReq]; exact recScalar_pos _ _ _
      | path => simp only [recognizeReq]; exact recScalar_pos _ _ _
    | classes c top =>
      simp only [recognizeReq]
      split
      · trivial
      · rename_i d hf
        split
        · trivial
        · rename_i acc hacc
          have hc := recSubclasses_causes _ (fun s => ih n (.classes s.name false))
            (env.directSubclasses c) ⟨[], []⟩ acc (by intro c h; cases h) hacc
          split
          · split
            · exact finishClasses_pos env n top [] acc.causes hc
            · have huc := recUserClass_pos env (fun x U => recognizeReq env fuel x (.ty U)) n d ihT
              split
              · trivial
              · rename_i ts ls hr
                rw [hr] at huc
                apply finishClasses_pos
                split
                · rename_i h0
                  exact causesOk_append _ _ hc (huc (by have := (len0_iff ts).mp h0; simp [this]))
                · exact hc
          · exact finishClasses_pos env n top acc.types acc.causes hc

end YatimlModel
