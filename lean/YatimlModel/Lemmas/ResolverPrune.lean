import YatimlModel.Model.Resolver
/-!
Entries that cannot influence whether a table resolves to a given tag `T` may be
dropped before the (expensive) reflective check: an entry with another tag only
matters if a later entry with tag `T` can apply to the same string.
-/
namespace YatimlModel

def Key.compat : Key → Key → Bool
  | .wild, _ => true
  | _, .wild => true
  | .empty, .empty => true
  | .ch a, .ch b => a == b
  | _, _ => false

theorem Key.compat_of_admits (k1 k2 : Key) (s : List Nat)
    (h1 : k1.admits s = true) (h2 : k2.admits s = true) : k1.compat k2 = true := by
  cases k1 <;> cases k2 <;> cases s <;> simp_all [Key.admits, Key.compat]

def prune (T : RTag) : List Entry → List Entry
  | [] => []
  | e :: es =>
    if e.tag == T || es.any (fun i => i.tag == T && e.key.compat i.key) then e :: prune T es
    else prune T es

def resolveIs (T : RTag) (tbl : List Entry) (s : List Nat) : Bool := resolve tbl s == T

theorem resolveIs_nil (T : RTag) (s : List Nat) : resolveIs T [] s = (tagStr == T) := rfl

theorem resolveIs_cons (T : RTag) (e : Entry) (es : List Entry) (s : List Nat) :
    resolveIs T (e :: es) s = if e.matches s then e.tag == T else resolveIs T es s := by
  simp only [resolveIs, resolve, List.find?_cons]
  cases e.matches s <;> simp

theorem resolveIs_true_ex (T : RTag) (hT : (tagStr == T) = false) (es : List Entry) (s : List Nat)
    (h : resolveIs T es s = true) : ∃ i ∈ es, (i.tag == T) = true ∧ i.matches s = true := by
  induction es with
  | nil => rw [resolveIs_nil, hT] at h; cases h
  | cons e es ih =>
    rw [resolveIs_cons] at h
    cases hm : e.matches s
    · rw [hm] at h
      obtain ⟨i, hi, h1, h2⟩ := ih (by simpa using h)
      exact ⟨i, List.mem_cons_of_mem _ hi, h1, h2⟩
    · rw [hm] at h
      exact ⟨e, List.mem_cons_self, by simpa using h, hm⟩

theorem prune_sound (T : RTag) (hT : (tagStr == T) = false) (tbl : List Entry) (s : List Nat) :
    resolveIs T (prune T tbl) s = resolveIs T tbl s := by
  induction tbl with
  | nil => rfl
  | cons e es ih =>
    simp only [prune]
    split
    · rw [resolveIs_cons, resolveIs_cons, ih]
    · rename_i hdrop
      rw [resolveIs_cons, ih]
      cases hm : e.matches s
      · simp
      · simp only [if_true]
        simp only [Bool.or_eq_true, not_or, Bool.not_eq_true] at hdrop
        rw [hdrop.1]
        cases hr : resolveIs T es s
        · rfl
        · exfalso
          obtain ⟨i, hi, h1, h2⟩ := resolveIs_true_ex T hT es s hr
          have hc : e.key.compat i.key = true := by
            apply Key.compat_of_admits _ _ s
            · simp only [Entry.matches, Bool.and_eq_true] at hm; exact hm.1
            · simp only [Entry.matches, Bool.and_eq_true] at h2; exact h2.1
          have := hdrop.2
          rw [List.any_eq_false] at this
          have := this i hi
          simp [h1, hc] at this

end YatimlModel
