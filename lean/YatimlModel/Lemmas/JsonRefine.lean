import YatimlModel.Model.Json
/-!
The push-down machine refines the recursive renderer: for every tree, every
enclosing stack and every configuration, running the machine over the tree's
events writes exactly what the renderer writes and leaves the stack as it found
it (with the enclosing container's state advanced).
-/
namespace YatimlModel.Json

theorem run_append (cfg : Cfg) (st : St) (a b : List Ev) :
    run cfg st (a ++ b) =
      match run cfg st a with
      | none => none
      | some (s1, o1) =>
        match run cfg s1 b with
        | none => none
        | some (s2, o2) => some (s2, o1 ++ o2) := by
  induction a generalizing st with
  | nil =>
    simp only [List.nil_append, run]
    cases run cfg st b with
    | none => rfl
    | some r => simp
  | cons e es ih =>
    simp only [List.cons_append, run]
    cases emit cfg st e with
    | none => rfl
    | some r =>
      obtain ⟨s1, o1⟩ := r
      simp only [ih]
      cases run cfg s1 es with
      | none => rfl
      | some r2 =>
        obtain ⟨s2, o2⟩ := r2
        simp only
        cases run cfg s2 b with
        | none => rfl
        | some r3 => simp [List.append_assoc]

def topL (first : Bool) : JS := if first then JS.seqFirst else JS.seq
def topK (first : Bool) : JS := if first then JS.mapKeyFirst else JS.mapKey
def afterL (first : Bool) : JL → JS | .nil => topL first | _ => JS.seq
def afterK (first : Bool) : JKL → JS | .nil => topK first | _ => JS.mapKey

mutual
theorem run_T (cfg : Cfg) : ∀ (t : JT) (top : JS) (rest : List JS) (ind : Nat),
    run cfg ⟨top :: rest, ind⟩ (evT t)
      = some (⟨nextOf top :: rest, ind⟩, sepOf cfg ind top ++ rT cfg ind t)
  | .scalar k v, top, rest, ind => by simp [evT, run, emit, rT]
  | .arr xs, top, rest, ind => by
    have h := run_L cfg xs true (nextOf top :: rest) (ind + cfg.best)
    simp only [topL, if_true] at h
    simp only [evT, run, emit]
    rw [run_append, h]
    cases xs <;> simp [run, emit, rT, afterL, topL, List.append_assoc]
  | .obj kvs, top, rest, ind => by
    have h := run_K cfg kvs true (nextOf top :: rest) (ind + cfg.best)
    simp only [topK, if_true] at h
    simp only [evT, run, emit]
    rw [run_append, h]
    cases kvs <;> simp [run, emit, rT, afterK, topK, List.append_assoc]
theorem run_L (cfg : Cfg) : ∀ (xs : JL) (first : Bool) (rest : List JS) (ind : Nat),
    run cfg ⟨topL first :: rest, ind⟩ (evL xs)
      = some (⟨afterL first xs :: rest, ind⟩, rL cfg ind first xs)
  | .nil, first, rest, ind => by simp [evL, run, rL, afterL]
  | .cons x xs, first, rest, ind => by
    have hx := run_T cfg x (topL first) rest ind
    have hxs := run_L cfg xs false rest ind
    have hn : nextOf (topL first) = topL false := by cases first <;> rfl
    simp only [evL]
    rw [run_append, hx]
    simp only [hn, hxs]
    cases first <;> cases xs <;> simp [rL, sepOf, topL, afterL, List.append_assoc]
theorem run_K (cfg : Cfg) : ∀ (kvs : JKL) (first : Bool) (rest : List JS) (ind : Nat),
    run cfg ⟨topK first :: rest, ind⟩ (evK kvs)
      = some (⟨afterK first kvs :: rest, ind⟩, rK cfg ind first kvs)
  | .nil, first, rest, ind => by simp [evK, run, rK, afterK]
  | .cons k v kvs, first, rest, ind => by
    have hk := run_T cfg k (topK first) rest ind
    have hv := run_T cfg v JS.mapValue rest ind
    have hkvs := run_K cfg kvs false rest ind
    have hn : nextOf (topK first) = JS.mapValue := by cases first <;> rfl
    have hn2 : nextOf JS.mapValue = topK false := rfl
    simp only [evK]
    rw [run_append, hk]
    simp only [hn]
    rw [run_append, hv]
    simp only [hn2, hkvs]
    cases first <;> cases kvs <;> simp [rK, sepOf, topK, afterK, List.append_assoc]
end

end YatimlModel.Json
