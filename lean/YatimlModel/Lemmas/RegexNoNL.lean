import YatimlModel.Lemmas.RegexDecide
namespace YatimlModel
open Re

/-- every character except the line feed -/
def notNL : CSet := [(0, 9), (11, 1114111)]
def noNLRe : Re := star (set notNL)

theorem derivs_empty (s : List Nat) : derivs empty s = empty := by
  induction s with
  | nil => rfl
  | cons c s ih => exact ih

theorem mkCat_eps_left (b : Re) : mkCat eps b = b := by cases b <;> rfl

theorem derivs_star_set (cs : CSet) (s : List Nat) :
    derivs (star (set cs)) s = if s.all (fun c => cs.mem c) then star (set cs) else empty := by
  induction s with
  | nil => simp [derivs]
  | cons c s ih =>
    rw [derivs_cons]
    simp only [deriv]
    cases h : cs.mem c
    · simp [mkCat, derivs_empty, h]
    · simp only [if_true, mkCat_eps_left, List.all_cons, h, Bool.true_and]
      exact ih

theorem rmatch_noNL (s : List Nat) (h : s.all (fun c => c != 10 && decide (c ≤ 1114111)) = true) :
    rmatch noNLRe s = true := by
  have hall : s.all (fun c => CSet.mem notNL c) = true := by
    rw [List.all_eq_true] at *
    intro c hc
    have := h c hc
    simp only [bne_iff_ne, ne_eq, Bool.and_eq_true, decide_eq_true_eq] at this
    simp only [notNL, CSet.mem, List.any_cons, List.any_nil, Bool.or_false, ble_dec, Bool.or_eq_true,
      Bool.and_eq_true, decide_eq_true_eq]
    omega
  simp [rmatch, noNLRe, derivs_star_set, hall, nullable]

end YatimlModel
