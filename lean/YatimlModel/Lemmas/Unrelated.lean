import YatimlModel.Model.Recognize
import YatimlModel.Lemmas.RecSound
/-!
Registering an additional, unrelated class does not change what a node is recognised as (C13).

"Unrelated": the class has a new name, is not derived from a registered class, and no registered
class mentions it in a parameter type or in a custom recogniser.  The node must not be tagged with the
new class (a tag `!New` is a way of *asking* for it).
-/
namespace YatimlModel
open NodeOps

-- no node of the tree carries the tag `t`
mutual
def TagFree (t : String) : Node → Prop
  | .scalar tg _ _ => tg ≠ t
  | .seq tg xs _ => tg ≠ t ∧ TagFreeL t xs
  | .map tg ps _ => tg ≠ t ∧ TagFreeP t ps
def TagFreeL (t : String) : Nodes → Prop
  | .nil => True
  | .cons x xs => TagFree t x ∧ TagFreeL t xs
def TagFreeP (t : String) : Pairs → Prop
  | .nil => True
  | .cons k v r => TagFree t k ∧ TagFree t v ∧ TagFreeP t r
end

theorem tagFreeL_iff (t : String) : ∀ (xs : Nodes), TagFreeL t xs ↔ ∀ x ∈ xs.toList, TagFree t x
  | .nil => by simp [TagFreeL, Nodes.toList]
  | .cons x xs => by simp [TagFreeL, Nodes.toList, tagFreeL_iff t xs]

theorem tagFreeP_iff (t : String) : ∀ (ps : Pairs), TagFreeP t ps ↔ ∀ p ∈ ps.toList, TagFree t p.1 ∧ TagFree t p.2
  | .nil => by simp [TagFreeP, Pairs.toList]
  | .cons k v r => by
    simp only [TagFreeP, Pairs.toList, List.mem_cons, tagFreeP_iff t r]
    constructor
    · rintro ⟨h1, h2, h3⟩ p (rfl | hp)
      · exact ⟨h1, h2⟩
      · exact h3 p hp
    · intro h
      exact ⟨(h (k, v) (Or.inl rfl)).1, (h (k, v) (Or.inl rfl)).2, fun p hp => h p (Or.inr hp)⟩

theorem tagFree_tag (t : String) (n : Node) (h : TagFree t n) : n.tag ≠ t := by
  cases n with
  | scalar _ _ _ => exact h
  | seq _ _ _ => exact h.1
  | map _ _ _ => exact h.1

-- the type does not mention class `u`
mutual
def NoU (u : String) : Ty → Prop
  | .cls c => c ≠ u
  | .union ms => NoUL u ms
  | .seq _ i => NoU u i
  | .map _ k v => NoU u k ∧ NoU u v
  | _ => True
def NoUL (u : String) : Tys → Prop
  | .nil => True
  | .cons t ts => NoU u t ∧ NoUL u ts
end

theorem noUL_mem (u : String) : ∀ (ms : Tys), NoUL u ms → ∀ m ∈ ms.toList, NoU u m
  | .nil, _, m, hm => by simp [Tys.toList] at hm
  | .cons t ts, h, m, hm => by
    simp only [NoUL] at h
    simp only [Tys.toList, List.mem_cons] at hm
    rcases hm with rfl | hm
    · exact h.1
    · exact noUL_mem u ts h.2 m hm

/-! ### the helpers only look at their call-back on the sub-nodes they are given -/

theorem recListItems_congr (rec rec' : Node → Ty → RecRes) (T itemTy : Ty) :
    ∀ (items : List Node) (amb : Option RecOut), (∀ x ∈ items, rec' x itemTy = rec x itemTy) →
      recListItems rec' T itemTy amb items = recListItems rec T itemTy amb items := by
  intro items
  induction items with
  | nil => intro amb _; rfl
  | cons x xs ih =>
    intro amb h
    unfold recListItems
    rw [h x List.mem_cons_self]
    cases rec x itemTy with
    | error e => rfl
    | ok o =>
      obtain ⟨ts, ls⟩ := o
      dsimp only
      split
      · rfl
      · exact ih _ (fun y hy => h y (List.mem_cons_of_mem _ hy))

theorem recDictPairs_congr (rec rec' : Node → Ty → RecRes) (T K V : Ty) :
    ∀ (ps : List (Node × Node)) (amb : Option RecOut),
      (∀ p ∈ ps, rec' p.1 K = rec p.1 K ∧ rec' p.2 V = rec p.2 V) →
      recDictPairs rec' T K V amb ps = recDictPairs rec T K V amb ps := by
  intro ps
  induction ps with
  | nil => intro amb _; rfl
  | cons p ps ih =>
    intro amb h
    obtain ⟨k, v⟩ := p
    have hp := h (k, v) List.mem_cons_self
    unfold recDictPairs
    rw [hp.1, hp.2]
    cases rec k K with
    | error e => rfl
    | ok o =>
      obtain ⟨kts, kl⟩ := o
      dsimp only
      split
      · rfl
      · cases rec v V with
        | error e => rfl
        | ok o2 =>
          obtain ⟨vts, vl⟩ := o2
          dsimp only
          split
          · rfl
          · exact ih _ (fun q hq => h q (List.mem_cons_of_mem _ hq))

theorem recUnionMembers_congr (rec rec' : Node → Ty → RecRes) (n : Node) :
    ∀ (ms : List Ty) (acc : UnionAcc), (∀ m ∈ ms, rec' n m = rec n m) →
      recUnionMembers rec' n ms acc = recUnionMembers rec n ms acc := by
  intro ms
  induction ms with
  | nil => intro acc _; rfl
  | cons m rest ih =>
    intro acc h
    unfold recUnionMembers
    rw [h m List.mem_cons_self]
    cases rec n m with
    | error e => rfl
    | ok o => obtain ⟨ts, ls⟩ := o; exact ih _ (fun x hx => h x (List.mem_cons_of_mem _ hx))

theorem recUnion_congr (rec rec' : Node → Ty → RecRes) (n : Node) (ms : List Ty)
    (h : ∀ m ∈ ms, rec' n m = rec n m) : recUnion rec' n ms = recUnion rec n ms := by
  unfold recUnion
  rw [recUnionMembers_congr rec rec' n ms _ h]

theorem tryAttrName_congr (rec rec' : Node → Ty → RecRes) (ps : List (Node × Node)) (ty : Ty) (name : String)
    (h : ∀ p ∈ ps, rec' p.2 ty = rec p.2 ty) : tryAttrName rec' ps ty name = tryAttrName rec ps ty name := by
  unfold tryAttrName
  split
  · cases hv : valuesOf ps name with
    | nil => rfl
    | cons v rest =>
      cases rest with
      | nil =>
        have hm : v ∈ valuesOf ps name := by rw [hv]; exact List.mem_cons_self
        unfold valuesOf at hm
        obtain ⟨q, hq, rfl⟩ := List.mem_map.mp hm
        simp only [h q (List.mem_filter.mp hq).1]
      | cons w rest' => rfl
  · rfl

theorem recAttrs_congr (rec rec' : Node → Ty → RecRes) (n : Node) (ps : List (Node × Node)) :
    ∀ (params : List Param), (∀ q ∈ params, ∀ p ∈ ps, rec' p.2 q.ty = rec p.2 q.ty) →
      recAttrs rec' n ps params = recAttrs rec n ps params := by
  intro params
  induction params with
  | nil => intro _; rfl
  | cons q rest ih =>
    intro h
    unfold recAttrs
    have hq := h q List.mem_cons_self
    have : recAttr rec' n ps q = recAttr rec n ps q := by
      unfold recAttr
      rw [tryAttrName_congr rec rec' ps q.ty q.name hq, tryAttrName_congr rec rec' ps q.ty (dashed q.name) hq]
    rw [this, ih (fun r hr => h r (List.mem_cons_of_mem _ hr))]

theorem reqAttribute_congr (rec rec' : Node → Ty → RecRes) (n : Node) (a : String) (ty : Option Ty)
    (h : ∀ T, ty = some T → ∀ p ∈ n.pairs, rec' p.2 T = rec p.2 T) :
    reqAttribute rec' n a ty = reqAttribute rec n a ty := by
  unfold reqAttribute
  cases n with
  | scalar _ _ _ => rfl
  | seq _ _ _ => rfl
  | map t ps m =>
    dsimp only
    cases hv : valuesOf ps.toList a with
    | nil => rfl
    | cons v rest =>
      dsimp only
      cases ty with
      | none => rfl
      | some T =>
        dsimp only
        have hm : v ∈ valuesOf ps.toList a := by rw [hv]; exact List.mem_cons_self
        unfold valuesOf at hm
        obtain ⟨q, hq, rfl⟩ := List.mem_map.mp hm
        rw [h T rfl q (by simpa [Node.pairs] using (List.mem_filter.mp hq).1)]

theorem runRecProg_congr (ext : Ext) (rec rec' : Node → Ty → RecRes) (n : Node) :
    ∀ (prog : List RecOp),
      (∀ a T, RecOp.requireAttribute a (some T) ∈ prog → ∀ p ∈ n.pairs, rec' p.2 T = rec p.2 T) →
      runRecProg ext rec' n prog = runRecProg ext rec n prog := by
  intro prog
  induction prog with
  | nil => intro _; rfl
  | cons op ops ih =>
    intro h
    unfold runRecProg
    have : runRecOp ext rec' n op = runRecOp ext rec n op := by
      cases op with
      | requireAttribute a ty =>
        simp only [runRecOp]
        apply reqAttribute_congr
        intro T hT p hp
        subst hT
        exact h a T List.mem_cons_self p hp
      | _ => rfl
    rw [this, ih (fun a T hm => h a T (List.mem_cons_of_mem _ hm))]

theorem recSubclasses_congr (recC recC' : ClassDef → RecRes) :
    ∀ (ds : List ClassDef) (acc : ClsAcc), (∀ d ∈ ds, recC' d = recC d) →
      recSubclasses recC' ds acc = recSubclasses recC ds acc := by
  intro ds
  induction ds with
  | nil => intro acc _; rfl
  | cons d rest ih =>
    intro acc h
    unfold recSubclasses
    rw [h d List.mem_cons_self]
    cases recC d with
    | error e => rfl
    | ok o => obtain ⟨ts, ls⟩ := o; exact ih _ (fun x hx => h x (List.mem_cons_of_mem _ hx))

/-! ### the class table with one more class -/

def Env.plus (env : Env) (d : ClassDef) : Env := { env with registered := env.registered ++ [d] }

structure Unrelated (env : Env) (d : ClassDef) : Prop where
  fresh : env.isRegistered d.name = false
  noBase : ∀ c, env.isRegistered c = true → d.bases.contains c = false
  params : ∀ e ∈ env.registered, ∀ p ∈ e.params, NoU d.name p.ty
  hooks : ∀ e ∈ env.registered, ∀ prog, e.recognize = some prog →
    ∀ a T, RecOp.requireAttribute a (some T) ∈ prog → NoU d.name T

theorem find_plus (env : Env) (d : ClassDef) (c : String) (h : c ≠ d.name) : (env.plus d).find c = env.find c := by
  unfold Env.find Env.plus
  rw [List.find?_append]
  have : [d].find? (fun x => x.name == c) = none := by
    simp only [List.find?_cons, List.find?_nil]
    have : (d.name == c) = false := by simpa using (fun e => h e.symm)
    simp [this]
  rw [this]
  simp

theorem isRegistered_plus (env : Env) (d : ClassDef) (c : String) (h : c ≠ d.name) :
    (env.plus d).isRegistered c = env.isRegistered c := by
  unfold Env.isRegistered Env.plus
  have : (d.name == c) = false := by simpa using (fun e => h e.symm)
  simp [List.any_append, this]

theorem bang_of_prefix (t : String) (h : hasPrefix "!" t = true) : t = "!" ++ String.ofList (t.toList.drop 1) := by
  unfold hasPrefix at h
  have hl : "!".toList = ['!'] := by decide
  rw [hl] at h
  cases ht : t.toList with
  | nil => rw [ht] at h; simp [List.isPrefixOf] at h
  | cons c cs =>
    rw [ht] at h
    simp only [List.isPrefixOf, Bool.and_eq_true, beq_iff_eq] at h
    apply String.toList_inj.mp
    rw [String.toList_append, hl, String.toList_ofList, ht]
    simp [← h.1]

theorem byTag_plus (env : Env) (d : ClassDef) (t : String) (h : t ≠ "!" ++ d.name) :
    (env.plus d).byTag t = env.byTag t := by
  unfold Env.byTag
  split
  · rename_i hp
    apply find_plus
    intro he
    apply h
    rw [bang_of_prefix t hp, he]
  · rfl

theorem mem_of_find (env : Env) (c : String) (e : ClassDef) (h : env.find c = some e) :
    e ∈ env.registered ∧ e.name = c := by
  unfold Env.find at h
  exact ⟨List.mem_of_find?_eq_some h, by simpa using List.find?_some h⟩

theorem registered_of_mem (env : Env) (e : ClassDef) (h : e ∈ env.registered) : env.isRegistered e.name = true := by
  unfold Env.isRegistered
  rw [List.any_eq_true]
  exact ⟨e, h, by simp⟩

theorem directSubclasses_plus (env : Env) (d : ClassDef) (hu : Unrelated env d) (c : String)
    (hc : env.isRegistered c = true) : (env.plus d).directSubclasses c = env.directSubclasses c := by
  unfold Env.directSubclasses Env.plus
  have : d.bases.contains c = false := hu.noBase c hc
  simp only [List.filter_append, List.filter_cons, this, Bool.false_eq_true, if_false, List.filter_nil,
    List.append_nil]

theorem keyTypeOk_plus (env : Env) (d : ClassDef) (k : Ty) (h : NoU d.name k) :
    keyTypeOk (env.plus d) k = keyTypeOk env k := by
  cases k <;> simp [keyTypeOk]
  rename_i c
  simp only [NoU] at h
  rw [find_plus env d c h]

/-- which requests do not involve the new class -/
def ReqFree (env : Env) (u : String) : Req → Prop
  | .ty T => NoU u T
  | .classes c _ => c ≠ u ∧ env.isRegistered c = true

/-- **An unrelated class changes nothing.**  For every node that is not tagged with the new class and every
request that does not mention it, recognition with the additional class registered gives exactly the same
answer (same types, same error leaves, same fatal outcome). -/
theorem recognizeReq_plus (env : Env) (d : ClassDef) (hu : Unrelated env d) :
    ∀ (fuel : Nat) (n : Node) (q : Req), TagFree ("!" ++ d.name) n → ReqFree env d.name q →
      recognizeReq (env.plus d) fuel n q = recognizeReq env fuel n q := by
  intro fuel
  induction fuel with
  | zero => intro n q _ _; rfl
  | succ fuel ih =>
    intro n q hn hq
    have ext_eq : (env.plus d).ext = env.ext := rfl
    cases q with
    | ty T =>
      simp only [ReqFree] at hq
      cases T with
      | union ms =>
        simp only [recognizeReq]
        simp only [NoU] at hq
        exact recUnion_congr _ _ n ms.toList (fun m hm => ih n (.ty m) hn (noUL_mem _ ms hq m hm))
      | seq k item =>
        simp only [recognizeReq, recList]
        simp only [NoU] at hq
        cases n with
        | seq t xs m =>
          dsimp only
          simp only [TagFree] at hn
          exact recListItems_congr _ _ _ item xs.toList none
            (fun x hx => ih x (.ty item) ((tagFreeL_iff _ xs).mp hn.2 x hx) hq)
        | scalar _ _ _ => rfl
        | map _ _ _ => rfl
      | map k a b =>
        simp only [recognizeReq, recDict]
        simp only [NoU] at hq
        rw [keyTypeOk_plus env d a hq.1]
        split
        · rfl
        · cases n with
          | map t ps m =>
            dsimp only
            simp only [TagFree] at hn
            exact recDictPairs_congr _ _ _ a b ps.toList none
              (fun p hp => ⟨ih p.1 (.ty a) ((tagFreeP_iff _ ps).mp hn.2 p hp).1 hq.1,
                            ih p.2 (.ty b) ((tagFreeP_iff _ ps).mp hn.2 p hp).2 hq.2⟩)
          | scalar _ _ _ => rfl
          | seq _ _ _ => rfl
      | cls c =>
        simp only [recognizeReq]
        simp only [NoU] at hq
        rw [isRegistered_plus env d c hq]
        split
        · rename_i hreg
          exact ih n (.classes c true) hn ⟨hq, hreg⟩
        · rfl
      | any => rfl
      | str => rfl
      | int => rfl
      | float => rfl
      | bool => rfl
      | boolFix => rfl
      | null => rfl
      | date => rfl
      | path => rfl
    | classes c top =>
      obtain ⟨hc, hreg⟩ := hq
      simp only [recognizeReq]
      rw [find_plus env d c hc, directSubclasses_plus env d hu c hreg]
      cases hf : env.find c with
      | none => rfl
      | some e =>
        dsimp only
        obtain ⟨hmem, hname⟩ := mem_of_find env c e hf
        -- every value of the mapping is free of the tag too
        have hvals : ∀ p ∈ n.pairs, TagFree ("!" ++ d.name) p.2 := by
          cases n with
          | map t ps m =>
            simp only [TagFree] at hn
            intro p hp
            exact ((tagFreeP_iff _ ps).mp hn.2 p (by simpa [Node.pairs] using hp)).2
          | scalar _ _ _ => intro p hp; simp [Node.pairs] at hp
          | seq _ _ _ => intro p hp; simp [Node.pairs] at hp
        have hsub : recSubclasses (fun s => recognizeReq (env.plus d) fuel n (.classes s.name false))
              (env.directSubclasses c) ⟨[], []⟩ =
            recSubclasses (fun s => recognizeReq env fuel n (.classes s.name false))
              (env.directSubclasses c) ⟨[], []⟩ := by
          apply recSubclasses_congr
          intro s hs
          have hsm : s ∈ env.registered := by
            unfold Env.directSubclasses at hs
            exact (List.mem_filter.mp hs).1
          have hsr := registered_of_mem env s hsm
          have hsn : s.name ≠ d.name := by
            intro he
            rw [he, hu.fresh] at hsr
            cases hsr
          exact ih n (.classes s.name false) hn ⟨hsn, hsr⟩
        rw [hsub]
        have huc : recUserClass (env.plus d) (fun x U => recognizeReq (env.plus d) fuel x (.ty U)) n e =
            recUserClass env (fun x U => recognizeReq env fuel x (.ty U)) n e := by
          unfold recUserClass
          rw [ext_eq]
          cases hr : e.recognize with
          | some prog =>
            dsimp only
            rw [runRecProg_congr env.ext (fun x U => recognizeReq env fuel x (.ty U))
              (fun x U => recognizeReq (env.plus d) fuel x (.ty U)) n prog
              (fun a T hm p hp => ih p.2 (.ty T) (hvals p hp) (hu.hooks e hmem prog hr a T hm))]
          | none =>
            dsimp only
            cases e.kind with
            | enum _ => rfl
            | stringLike => rfl
            | plain =>
              dsimp only
              cases n with
              | scalar _ _ _ => rfl
              | seq _ _ _ => rfl
              | map t ps m =>
                dsimp only
                rw [recAttrs_congr (fun x U => recognizeReq env fuel x (.ty U))
                  (fun x U => recognizeReq (env.plus d) fuel x (.ty U)) (.map t ps m) ps.toList e.params
                  (fun q hq p hp => ih p.2 (.ty q.ty) (hvals p (by simpa [Node.pairs] using hp))
                    (hu.params e hmem q hq))]
        rw [huc]
        have hfin : ∀ ts causes, finishClasses (env.plus d) n top ts causes = finishClasses env n top ts causes := by
          intro ts causes
          unfold finishClasses
          rw [byTag_plus env d n.tag (tagFree_tag _ n hn)]
        simp only [hfin]

end YatimlModel
