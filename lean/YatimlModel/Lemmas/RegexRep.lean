import YatimlModel.Lemmas.RegexBeq
/-!
Character-class representatives: a derivative w.r.t. `c` only depends on the
position of `c` relative to the range boundaries occurring in the regex.
-/
namespace YatimlModel
open Re

def rep' : List Nat → Nat → Nat
  | [], _ => 0
  | b :: bs, c => if b ≤ c ∧ rep' bs c ≤ b then b else rep' bs c

theorem rep'_le (bs : List Nat) (c : Nat) : rep' bs c ≤ c := by
  induction bs with
  | nil => simp [rep']
  | cons b bs ih => simp only [rep']; split <;> omega

theorem rep'_ge (bs : List Nat) (c b : Nat) (hb : b ∈ bs) (hc : b ≤ c) : b ≤ rep' bs c := by
  induction bs with
  | nil => cases hb
  | cons x xs ih =>
    simp only [rep']
    rcases List.mem_cons.mp hb with h | h
    · subst h; split <;> omega
    · have := ih h; split <;> omega

theorem rep'_mem (bs : List Nat) (c : Nat) : rep' bs c ∈ bs ∨ rep' bs c = 0 := by
  induction bs with
  | nil => simp [rep']
  | cons b bs ih =>
    simp only [rep']
    split
    · left; exact List.mem_cons_self
    · rcases ih with h | h
      · left; exact List.mem_cons_of_mem _ h
      · right; exact h

theorem range_rep (bs : List Nat) (lo hi c : Nat) (hlo : lo ∈ bs) (hhi : hi + 1 ∈ bs) :
    (decide (lo ≤ c) && decide (c ≤ hi)) = (decide (lo ≤ rep' bs c) && decide (rep' bs c ≤ hi)) := by
  have h1 := rep'_le bs c
  by_cases hc1 : lo ≤ c
  · have h2 := rep'_ge bs c lo hlo hc1
    by_cases hc2 : c ≤ hi
    · have : rep' bs c ≤ hi := by omega
      simp [hc1, hc2, h2, this]
    · have h3 := rep'_ge bs c (hi+1) hhi (by omega)
      have : ¬ rep' bs c ≤ hi := by omega
      simp [hc2, this]
  · have : ¬ lo ≤ rep' bs c := by omega
    simp [hc1, this]

theorem cset_mem_rep (bs : List Nat) (cs : CSet) (c : Nat)
    (h : ∀ p ∈ cs, p.1 ∈ bs ∧ p.2 + 1 ∈ bs) : cs.mem c = cs.mem (rep' bs c) := by
  induction cs with
  | nil => simp [CSet.mem]
  | cons p ps ih =>
    have hp := h p List.mem_cons_self
    have ih' := ih (fun q hq => h q (List.mem_cons_of_mem _ hq))
    simp only [CSet.mem, List.any_cons, ble_dec] at *
    rw [ih', range_rep bs p.1 p.2 c hp.1 hp.2]

theorem bounds_set (cs : CSet) (bs : List Nat) (h : ∀ b ∈ bounds (Re.set cs), b ∈ bs) :
    ∀ p ∈ cs, p.1 ∈ bs ∧ p.2 + 1 ∈ bs := by
  induction cs with
  | nil => intro p hp; cases hp
  | cons q qs ih =>
    intro p hp
    simp only [bounds, List.foldr_cons] at h
    rcases List.mem_cons.mp hp with e | e
    · subst e
      exact ⟨h _ List.mem_cons_self, h _ (List.mem_cons_of_mem _ List.mem_cons_self)⟩
    · apply ih _ p e
      intro b hb
      apply h
      simp only [bounds] at hb
      exact List.mem_cons_of_mem _ (List.mem_cons_of_mem _ hb)

theorem deriv_rep (bs : List Nat) (c : Nat) (r : Re) (h : ∀ b ∈ bounds r, b ∈ bs) :
    deriv c r = deriv (rep' bs c) r := by
  induction r with
  | empty => rfl
  | eps => rfl
  | set cs => simp only [deriv]; rw [cset_mem_rep bs cs c (bounds_set cs bs h)]
  | cat a b iha ihb =>
    have ha := iha (fun x hx => h x (by simp [bounds, hx]))
    have hb := ihb (fun x hx => h x (by simp [bounds, hx]))
    simp only [deriv, ha, hb]
  | alt a b iha ihb =>
    have ha := iha (fun x hx => h x (by simp [bounds, hx]))
    have hb := ihb (fun x hx => h x (by simp [bounds, hx]))
    simp only [deriv, ha, hb]
  | star a iha =>
    have ha := iha (fun x hx => h x (by simp [bounds, hx]))
    simp only [deriv, ha]
end YatimlModel
