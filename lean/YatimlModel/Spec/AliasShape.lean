import YatimlModel.Model.Load
/-!
# Syntactic shape of a composed document with anchors and aliases (specification for C18)

`selfRef`: some alias names an anchor of a collection that encloses it.  `scopedDoc`: every alias names
an anchor seen earlier or the anchor of an enclosing collection (what PyYAML's composer guarantees).
Neither looks at expanded nodes; both are compared on every run with an independent walk over the real
composer's node graph (driver command `docshape`).
-/
namespace YatimlModel.C18
open YatimlModel

mutual
/-- some alias in `d` names an anchor of a collection that encloses it (`opened`: the enclosing anchors) -/
def selfRef (opened : List (String × Mark)) : Doc → Bool
  | .scalar _ _ _ _ => false
  | .seq a _ xs m => selfRefs (openAnchor a m opened) xs
  | .map a _ ps m => selfRefPairs (openAnchor a m opened) ps
  | .alias name _ => (opened.lookup name).isSome
def selfRefs (opened : List (String × Mark)) : Docs → Bool
  | .nil => false
  | .cons x xs => selfRef opened x || selfRefs opened xs
def selfRefPairs (opened : List (String × Mark)) : DocPairs → Bool
  | .nil => false
  | .cons k v r => selfRef opened k || selfRef opened v || selfRefPairs opened r
end

def noteName (a : Option String) (defd : List String) : List String :=
  match a with
  | some name => name :: defd
  | none => defd

mutual
def scopedDoc (opened : List (String × Mark)) (defd : List String) : Doc → Option (List String)
  | .scalar a _ _ _ => some (noteName a defd)
  | .seq a _ xs m =>
    match scopedDocs (openAnchor a m opened) defd xs with
    | some d' => some (noteName a d')
    | none => none
  | .map a _ ps m =>
    match scopedPairs (openAnchor a m opened) defd ps with
    | some d' => some (noteName a d')
    | none => none
  | .alias name _ => if (opened.lookup name).isSome || defd.contains name then some defd else none
def scopedDocs (opened : List (String × Mark)) (defd : List String) : Docs → Option (List String)
  | .nil => some defd
  | .cons x xs =>
    match scopedDoc opened defd x with
    | some d1 => scopedDocs opened d1 xs
    | none => none
def scopedPairs (opened : List (String × Mark)) (defd : List String) : DocPairs → Option (List String)
  | .nil => some defd
  | .cons k v r =>
    match scopedDoc opened defd k with
    | some d1 =>
      match scopedDoc opened d1 v with
      | some d2 => scopedPairs opened d2 r
      | none => none
    | none => none
end

end YatimlModel.C18
