import YatimlModel.Model.Regex
/-!
The YAML 1.2.2 core schema (section 10.3.2) regular expressions for booleans
and floating point numbers, written by hand from the standard.

  bool : `true | True | TRUE | false | False | FALSE`
  float: `[-+]? ( \. [0-9]+ | [0-9]+ ( \. [0-9]* )? ) ( [eE] [-+]? [0-9]+ )?`
         `[-+]? ( \.inf | \.Inf | \.INF )`,  `\.nan | \.NaN | \.NAN`
  int  : `[-+]? [0-9]+`   (a float spelling without `.` and exponent is an int)

Reading fixed for C09 (DESIGN.md 7a): the float language is the core-schema
float language *minus the integers* ("digits with a fraction point and/or an
exponent"), and a sign is admitted in front of `.nan` as it is in front of
`.inf` (PyYAML's float constructor strips the sign before looking at `.nan`).
-/
namespace YatimlModel.Spec
open YatimlModel Re

def digit : Re := rng '0' '9'
def sign : Re := opt (set [('+'.toNat, '+'.toNat), ('-'.toNat, '-'.toNat)])
def expo : Re := cat (set [('E'.toNat, 'E'.toNat), ('e'.toNat, 'e'.toNat)]) (cat sign (plus digit))

def specBool : Re :=
  alts [lit "true", lit "True", lit "TRUE", lit "false", lit "False", lit "FALSE"]

/-- core-schema floats that are not core-schema ints -/
def specFloat : Re :=
  alts [
    -- a fraction point (digits on at least one side), optional exponent
    cat sign (cat (alts [cat (ch '.') (plus digit),
                          cat (plus digit) (cat (ch '.') (star digit))]) (opt expo)),
    -- no fraction point: the exponent is mandatory
    cat sign (cat (plus digit) expo),
    cat sign (cat (ch '.') (alts [lit "inf", lit "Inf", lit "INF"])),
    cat sign (cat (ch '.') (alts [lit "nan", lit "NaN", lit "NAN"]))]

/-- Python's `$` also matches before one final line feed; plain scalars never end
in a line break, so this tail is invisible to C09's quantifier domain. -/
def optNL : Re := opt (set [(10, 10)])

/-- what Python's `float()` accepts (ASCII subset, no surrounding whitespace,
underscores excluded): used to show that a resolved float constructs. -/
def pyFloatArg : Re :=
  cat sign (alts [
    cat (alts [cat (plus digit) (opt (cat (ch '.') (star digit))), cat (ch '.') (plus digit)]) (opt expo),
    alts [lit "inf", lit "nan"]])

end YatimlModel.Spec
