import YatimlModel.Model.Json
/-!
Specification side of C07: the canonical (whitespace-free) JSON token stream of
a tree, written directly from RFC 8259

    value  = scalar / "[" [ value *( "," value ) ] "]" / "{" [ member *( "," member ) ] "}"
    member = string ":" value

and the erasure of insignificant whitespace from a chunk stream.  RFC 8259
allows whitespace before and after every structural character and value, so a
chunk stream whose erasure is the canonical stream of `t` is a JSON text for `t`
provided whitespace chunks are whole chunks (they are: `Chunk.nl`).
-/
namespace YatimlModel.Json

inductive Tok
  | p (s : String)        -- structural character
  | s (text : String)     -- scalar token
  deriving DecidableEq, Repr

mutual
def cT (f : TextFns) : JT → List Tok
  | .scalar k v => [Tok.s (scalarText f k v)]
  | .arr xs => [Tok.p "["] ++ cL f true xs ++ [Tok.p "]"]
  | .obj kvs => [Tok.p "{"] ++ cK f true kvs ++ [Tok.p "}"]
def cL (f : TextFns) (first : Bool) : JL → List Tok
  | .nil => []
  | .cons x xs => (if first then [] else [Tok.p ","]) ++ cT f x ++ cL f false xs
def cK (f : TextFns) (first : Bool) : JKL → List Tok
  | .nil => []
  | .cons k v rest => (if first then [] else [Tok.p ","]) ++ cT f k ++ [Tok.p ":"] ++ cT f v
                      ++ cK f false rest
end

/-- erase insignificant whitespace: line-break chunks, and the space after the colon -/
def strip : List Chunk → List Tok
  | [] => []
  | .nl _ :: cs => strip cs
  | .punct s :: cs => Tok.p (if s == ": " then ":" else s) :: strip cs
  | .scal t :: cs => Tok.s t :: strip cs

-- object keys are string scalars (the property's "string keys")
mutual
def StrKeys : JT → Prop
  | .scalar _ _ => True
  | .arr xs => StrKeysL xs
  | .obj kvs => StrKeysK kvs
def StrKeysL : JL → Prop
  | .nil => True
  | .cons x xs => StrKeys x ∧ StrKeysL xs
def StrKeysK : JKL → Prop
  | .nil => True
  | .cons k v rest => (∃ s, k = JT.scalar SK.str s) ∧ StrKeys v ∧ StrKeysK rest
end

/-- nesting depth at which every line break of a rendered tree sits -/
def nlIndents : List Chunk → List Nat
  | [] => []
  | .nl n :: cs => n :: nlIndents cs
  | _ :: cs => nlIndents cs

end YatimlModel.Json
