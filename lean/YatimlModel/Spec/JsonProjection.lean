import YatimlModel.Spec.JsonParse
import YatimlModel.Model.Json
import YatimlModel.Model.Represent
/-!
Specification side of C07, value level: the **JSON projection** of a Python value, stated on its own
(`jsonOf`), and the serializer's view of a represented node tree as `emit_json` sees it (`ofNode`:
scalar events are told apart by tag only).

`jsonOf` is the property's "JSON projection of the object (the YAML projection with dates as ISO
strings)": `None`, booleans and numbers as such, strings, paths, enum members (by name), string-likes
and dates as strings, lists as arrays, dicts as objects in order, a user object as the object of its
constructor parameters in declaration order followed by its extra attributes.  It is `none` outside
C07's domain (bytes, keys that are not strings).  Recursion is on a fuel argument because the extra
attributes of an object are spliced into its attribute list (`attributesOf`).
-/
namespace YatimlModel.C07
open YatimlModel YatimlModel.Json YatimlModel.JsonParse

/-! ### the serializer's view of a node tree: what `emit_json` can see -/

/-- how `emit_json` tells scalar events apart: by tag -/
def skOfTag (t : String) : SK :=
  if t == tStr then .str else if t == tNull then .null else if t == tBool then .bool
  else if t == tTimestamp then .timestamp else .other

mutual
def ofNode : Node → JT
  | .scalar t v _ => .scalar (skOfTag t) v
  | .seq _ items _ => .arr (ofNodes items)
  | .map _ ps _ => .obj (ofPairs ps)
def ofNodes : Nodes → JL
  | .nil => .nil
  | .cons x xs => .cons (ofNode x) (ofNodes xs)
def ofPairs : Pairs → JKL
  | .nil => .nil
  | .cons k v rest => .cons (ofNode k) (ofNode v) (ofPairs rest)
end

/-! ### the JSON projection of a value, stated on its own -/

def keyText : PyVal → Option (List Nat)
  | .scalar (.str s) => some (codes s)
  | .userStr _ s => some (codes s)
  | .enumMember _ n => some (codes n)
  | .path s => some (codes s)
  | _ => none

def jsonItems (j : PyVal → Option JV) : List PyVal → Option JVs
  | [] => some .nil
  | x :: xs =>
    match j x, jsonItems j xs with
    | some a, some b => some (.cons a b)
    | _, _ => none

def jsonPairs (j : PyVal → Option JV) : List (PyVal × PyVal) → Option JKVs
  | [] => some .nil
  | (k, v) :: r =>
    match keyText k, j v, jsonPairs j r with
    | some a, some b, some c => some (.cons a b c)
    | _, _, _ => none

def jsonOf : Nat → PyVal → Option JV
  | 0, _ => none
  | fuel + 1, v =>
    let j := jsonOf fuel
    match v with
    | .scalar .none => some .null
    | .scalar (.bool b) => some (.bool b)
    | .scalar (.int i) => some (.num (codes (toString i)))
    | .scalar (.float r _) => some (.num (codes (floatText r)))
    | .scalar (.str s) => some (.str (codes s))
    | .date r => some (.str (codes r))
    | .bytes _ => none
    | .path s => some (.str (codes s))
    | .enumMember _ n => some (.str (codes n))
    | .userStr _ s => some (.str (codes s))
    | .list xs => (jsonItems j xs.toList).map JV.arr
    | .dict kvs => (jsonPairs j kvs.toList).map JV.obj
    | .obj _ kw => (jsonPairs j (attributesOf kw.toList)).map JV.obj

end YatimlModel.C07
