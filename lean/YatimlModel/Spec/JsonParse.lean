import YatimlModel.Model.Regex
/-!
Specification side of C07, character level: a reference **parser** for RFC 8259
JSON texts over code points, written from the grammar and sharing nothing with
the emitter model or the canonical renderer.

    JSON-text = ws value ws
    value     = false / null / true / object / array / number / string
    object    = "{" ws [ member *( ws "," ws member ) ] ws "}"      member = string ws ":" ws value
    array     = "[" ws [ value *( ws "," ws value ) ] ws "]"
    ws        = *( %x20 / %x09 / %x0A / %x0D )
    number    = [ minus ] int [ frac ] [ exp ]                        (section 6, `numberRe`)
    string    = quotation-mark *char quotation-mark                   (section 7)

A string denotes the sequence of code points it spells; a `\uXXXX` escape for a
high surrogate directly followed by one for a low surrogate denotes the one
supplementary code point (section 7, and what `json.loads` does).  A number
token is the maximal run of number characters, which must be in the language of
`numberRe` (a number is always followed by white space, a structural character
or the end of the text).  Recursion is on a fuel argument; `parseJson` supplies
the length of the text, which always suffices.
-/
namespace YatimlModel.JsonParse
open YatimlModel

mutual
inductive JV
  | null
  | bool (b : Bool)
  | num (text : List Nat)
  | str (s : List Nat)
  | arr (xs : JVs)
  | obj (kvs : JKVs)
inductive JVs | nil | cons (x : JV) (xs : JVs)
inductive JKVs | nil | cons (k : List Nat) (v : JV) (rest : JKVs)
end
deriving instance DecidableEq for JV
deriving instance DecidableEq for JVs
deriving instance DecidableEq for JKVs

/-! ### white space -/

def isWs (c : Nat) : Bool := c == 32 || c == 9 || c == 10 || c == 13

def skipWs : List Nat → List Nat
  | [] => []
  | c :: cs => if isWs c then skipWs cs else c :: cs

/-! ### strings -/

def hexVal (c : Nat) : Option Nat :=
  if 48 ≤ c ∧ c ≤ 57 then some (c - 48)
  else if 97 ≤ c ∧ c ≤ 102 then some (c - 87)
  else if 65 ≤ c ∧ c ≤ 70 then some (c - 55)
  else none

def hex4Val (a b c d : Nat) : Option Nat :=
  match hexVal a, hexVal b, hexVal c, hexVal d with
  | some a, some b, some c, some d => some (((a * 16 + b) * 16 + c) * 16 + d)
  | _, _, _, _ => none

/-- the two-character escapes: `\" \\ \/ \b \f \n \r \t` -/
def unescLetter (e : Nat) : Option Nat :=
  if e == 34 then some 34 else if e == 92 then some 92 else if e == 47 then some 47
  else if e == 98 then some 8 else if e == 102 then some 12 else if e == 110 then some 10
  else if e == 114 then some 13 else if e == 116 then some 9 else none

/-- after a `\uXXXX` with value `hi`: is it a high surrogate directly followed by the escape of a
low surrogate?  Then the pair denotes one code point. -/
def lowSurr (hi : Nat) (cs : List Nat) : Option (Nat × List Nat) :=
  if 55296 ≤ hi ∧ hi ≤ 56319 then
    match cs with
    | x :: y :: e :: f :: g :: h :: rest =>
      if x = 92 ∧ y = 117 then
        match hex4Val e f g h with
        | some lo => if 56320 ≤ lo ∧ lo ≤ 57343
                     then some (65536 + (hi - 55296) * 1024 + (lo - 56320), rest) else none
        | none => none
      else none
    | _ => none
  else none

def consTo (c : Nat) : Option (List Nat × List Nat) → Option (List Nat × List Nat)
  | some (s, r) => some (c :: s, r)
  | none => none

/-- the characters after the opening quotation mark: the denoted code points and what follows the
closing quotation mark -/
def parseStrBody : Nat → List Nat → Option (List Nat × List Nat)
  | 0, _ => none
  | _ + 1, [] => none
  | f + 1, c :: cs =>
    if c = 34 then some ([], cs)
    else if c = 92 then
      match cs with
      | [] => none
      | e :: cs1 =>
        if e = 117 then
          match cs1 with
          | a :: b :: c' :: d :: cs2 =>
            match hex4Val a b c' d with
            | none => none
            | some hi =>
              match lowSurr hi cs2 with
              | some (cp, cs3) => consTo cp (parseStrBody f cs3)
              | none => consTo hi (parseStrBody f cs2)
          | _ => none
        else
          match unescLetter e with
          | some v => consTo v (parseStrBody f cs1)
          | none => none
    else if 32 ≤ c then consTo c (parseStrBody f cs)
    else none

/-! ### numbers -/

def isNumChar (c : Nat) : Bool :=
  (48 ≤ c && c ≤ 57) || c == 45 || c == 43 || c == 46 || c == 101 || c == 69

def spanNum : List Nat → List Nat × List Nat
  | [] => ([], [])
  | c :: cs => if isNumChar c then ((spanNum cs).1.cons c, (spanNum cs).2) else ([], c :: cs)

section
open YatimlModel.Re
/-- RFC 8259 section 6: `[ "-" ] ( "0" / digit1-9 *DIGIT ) [ "." 1*DIGIT ] [ ("e"/"E") ["+"/"-"] 1*DIGIT ]` -/
def numberRe : Re :=
  cat (opt (ch '-')) (cat (alt (ch '0') (cat (rng '1' '9') (star (rng '0' '9'))))
    (cat (opt (cat (ch '.') (plus (rng '0' '9'))))
      (opt (cat (set [('E'.toNat, 'E'.toNat), ('e'.toNat, 'e'.toNat)])
        (cat (opt (set [('+'.toNat, '+'.toNat), ('-'.toNat, '-'.toNat)])) (plus (rng '0' '9')))))))
end

/-! ### values -/

mutual
/-- `ws value` (the white space after a value belongs to what follows) -/
def parseValue : Nat → List Nat → Option (JV × List Nat)
  | 0, _ => none
  | f + 1, cs =>
    match skipWs cs with
    | [] => none
    | c :: r =>
      if c = 34 then
        match parseStrBody (r.length + 1) r with
        | some (s, r') => some (JV.str s, r')
        | none => none
      else if c = 91 then
        match skipWs r with
        | c2 :: r2 => if c2 = 93 then some (JV.arr .nil, r2) else
            match parseElems f r with
            | some (xs, r') => some (JV.arr xs, r')
            | none => none
        | [] => none
      else if c = 123 then
        match skipWs r with
        | c2 :: r2 => if c2 = 125 then some (JV.obj .nil, r2) else
            match parseMembers f r with
            | some (kvs, r') => some (JV.obj kvs, r')
            | none => none
        | [] => none
      else if c = 116 then
        match r with
        | 114 :: 117 :: 101 :: r' => some (JV.bool true, r')
        | _ => none
      else if c = 102 then
        match r with
        | 97 :: 108 :: 115 :: 101 :: r' => some (JV.bool false, r')
        | _ => none
      else if c = 110 then
        match r with
        | 117 :: 108 :: 108 :: r' => some (JV.null, r')
        | _ => none
      else if isNumChar c then
        let tok := (spanNum (c :: r)).1
        if Re.rmatch numberRe tok then some (JV.num tok, (spanNum (c :: r)).2) else none
      else none
/-- `value *( ws "," value ) ws "]"`, at least one value -/
def parseElems : Nat → List Nat → Option (JVs × List Nat)
  | 0, _ => none
  | f + 1, cs =>
    match parseValue f cs with
    | none => none
    | some (v, r) =>
      match skipWs r with
      | c :: r' =>
        if c = 93 then some (JVs.cons v .nil, r')
        else if c = 44 then
          match parseElems f r' with
          | some (xs, r'') => some (JVs.cons v xs, r'')
          | none => none
        else none
      | [] => none
/-- `member *( ws "," member ) ws "}"`, at least one member; `member = ws string ws ":" value` -/
def parseMembers : Nat → List Nat → Option (JKVs × List Nat)
  | 0, _ => none
  | f + 1, cs =>
    match skipWs cs with
    | c :: r =>
      if c = 34 then
        match parseStrBody (r.length + 1) r with
        | none => none
        | some (k, r1) =>
          match skipWs r1 with
          | c1 :: r2 =>
            if c1 = 58 then
              match parseValue f r2 with
              | none => none
              | some (v, r3) =>
                match skipWs r3 with
                | c3 :: r4 =>
                  if c3 = 125 then some (JKVs.cons k v .nil, r4)
                  else if c3 = 44 then
                    match parseMembers f r4 with
                    | some (kvs, r5) => some (JKVs.cons k v kvs, r5)
                    | none => none
                  else none
                | [] => none
            else none
          | [] => none
      else none
    | [] => none
end

/-- `JSON-text = ws value ws`: the value a JSON text denotes, `none` if it is not a JSON text -/
def parseJson (cs : List Nat) : Option JV :=
  match parseValue (cs.length + 1) cs with
  | some (v, r) => if skipWs r = [] then some v else none
  | none => none

end YatimlModel.JsonParse
