import YatimlModel.Model.Recognize
/-!
# The documented recognition rules, stated on their own (C02)

`matchesReq env fuel n (.ty T)` says whether node `n` is in the language of type `T` for a class
model whose classes are all recognised automatically:

* a built-in type matches a scalar with exactly its YAML tag (`Path` a string, `date` a timestamp);
* a list type matches a sequence node all of whose items match the item type; a dict type a mapping
  node all of whose keys and values match (the key type must be `str` or string-like);
* a Union matches when one of its members does; `Any` matches everything;
* a class matches when the node matches the class itself or one of the registered classes derived from
  it (through registered direct-subclass steps), abstract classes excepted:
  - an enum matches a scalar tagged str or bool, a string-like class a scalar tagged str,
  - any other class matches a mapping node in which, for every constructor parameter, the key of that
    name — or, if there is none, the key with dashes for underscores — occurs once with a value
    matching the parameter's type, or does not occur and the parameter has a default.

The recursion is on `fuel` only so that it lines up with the model of the recogniser; nothing else is
shared with it.
-/
namespace YatimlModel.Spec
open YatimlModel NodeOps

def scalarTagged (n : Node) (tag : String) : Bool :=
  match n with
  | .scalar t _ _ => t == tag
  | _ => false

def valueMatches (m : Node → Ty → Bool) (ps : List (Node × Node)) (ty : Ty) (key : String) : Bool :=
  match valuesOf ps key with
  | [v] => m v ty
  | _ => false

def attrMatches (m : Node → Ty → Bool) (ps : List (Node × Node)) (p : Param) : Bool :=
  if hasKey ps p.name then valueMatches m ps p.ty p.name
  else if hasKey ps (dashed p.name) then valueMatches m ps p.ty (dashed p.name)
  else !p.required

def classMatches (m : Node → Ty → Bool) (d : ClassDef) (n : Node) : Bool :=
  match d.kind with
  | .enum _ => scalarTagged n tStr || scalarTagged n tBool
  | .stringLike => scalarTagged n tStr
  | .plain =>
    match n with
    | .map _ ps _ => d.params.all (attrMatches m ps.toList)
    | _ => false

def matchesReq (env : Env) : Nat → Node → Req → Bool
  | 0, _, _ => false
  | fuel + 1, n, .ty T =>
    match T with
    | .str => scalarTagged n tStr
    | .int => scalarTagged n tInt
    | .float => scalarTagged n tFloat
    | .bool => scalarTagged n tBool
    | .boolFix => scalarTagged n tBool
    | .null => scalarTagged n tNull
    | .date => scalarTagged n tTimestamp
    | .path => scalarTagged n tStr
    | .union ms => ms.toList.any (fun m => matchesReq env fuel n (.ty m))
    | .seq _ item =>
      (match n with
       | .seq _ items _ => items.toList.all (fun x => matchesReq env fuel x (.ty item))
       | _ => false)
    | .map _ k v =>
      keyTypeOk env k &&
      (match n with
       | .map _ ps _ => ps.toList.all (fun p => matchesReq env fuel p.1 (.ty k) && matchesReq env fuel p.2 (.ty v))
       | _ => false)
    | .cls c => env.isRegistered c && matchesReq env fuel n (.classes c true)
    | .any => true
  | fuel + 1, n, .classes c _ =>
    match env.find c with
    | none => false
    | some d =>
      (env.directSubclasses c).any (fun s => matchesReq env fuel n (.classes s.name false)) ||
      (!d.abstract && classMatches (fun x U => matchesReq env fuel x (.ty U)) d n)

/-- node `n` is in the language of type `T` -/
def matchesTy (env : Env) (fuel : Nat) (n : Node) (T : Ty) : Bool := matchesReq env fuel n (.ty T)

end YatimlModel.Spec
