import YatimlModel.Model.Wire
import YatimlModel.Model.NodeOps
import YatimlModel.Model.Transforms
/-! Wire format of nodes, Python scalars and the external-function tables. -/
namespace YatimlModel.Driver
open YatimlModel.Wire YatimlModel.NodeOps

partial def toNode : Sexp → Option Node
  | .list [.atom "S", t, v, l, c] => do
    pure (.scalar (← t.str?) (← v.str?) ⟨← l.nat?, ← c.nat?⟩)
  | .list (.atom "Q" :: t :: l :: c :: xs) => do
    let ys ← xs.mapM toNode
    pure (.seq (← t.str?) (Nodes.ofList ys) ⟨← l.nat?, ← c.nat?⟩)
  | .list (.atom "M" :: t :: l :: c :: xs) => do
    let rec go : List Sexp → Option (List (Node × Node))
      | [] => some []
      | k :: v :: rest => do
        let k ← toNode k
        let v ← toNode v
        let r ← go rest
        pure ((k, v) :: r)
      | _ => none
    let ps ← go xs
    pure (.map (← t.str?) (Pairs.ofList ps) ⟨← l.nat?, ← c.nat?⟩)
  | _ => none

mutual
partial def showNode : Node → String
  | .scalar t v m => s!"( S {hex t} {hex v} {m.line} {m.col} )"
  | .seq t xs m => s!"( Q {hex t} {m.line} {m.col}{showNodes xs} )"
  | .map t ps m => s!"( M {hex t} {m.line} {m.col}{showPairs ps} )"
partial def showNodes : Nodes → String
  | .nil => ""
  | .cons x xs => " " ++ showNode x ++ showNodes xs
partial def showPairs : Pairs → String
  | .nil => ""
  | .cons k v r => " " ++ showNode k ++ " " ++ showNode v ++ showPairs r
end

def toInt? (s : String) : Option Int := s.toInt?

def toScalar : Sexp → Option PyScalar
  | .list [.atom "str", v] => do pure (.str (← v.str?))
  | .list [.atom "int", .atom v] => do pure (.int (← toInt? v))
  | .list [.atom "float", r, .atom i] => do
    pure (.float (← r.str?) (if i == "none" then none else toInt? i))
  | .list [.atom "bool", b] => do pure (.bool (← b.bool?))
  | .list [.atom "none"] => some .none
  | _ => none

def showScalar : PyScalar → String
  | .str s => s!"( str {hex s} )"
  | .int i => s!"( int {i} )"
  | .float r i => s!"( float {hex r} {match i with | some i => toString i | none => "none"} )"
  | .bool b => s!"( bool {if b then 1 else 0} )"
  | .none => "( none )"

/-- `( ( <strhex> <reprhex|!> <int|none> ) ... )` -/
def toFloatTable (s : Sexp) : Option (List (String × Option (String × Option Int))) :=
  match s with
  | .list xs => xs.mapM (fun e =>
      match e with
      | .list [k, .atom "!", _] => do pure (← k.str?, none)
      | .list [k, r, .atom i] => do
        pure (← k.str?, some (← r.str?, if i == "none" then none else toInt? i))
      | _ => none)
  | _ => none

def toStrTable (s : Sexp) : Option (List (String × Option String)) :=
  match s with
  | .list xs => xs.mapM (fun e =>
      match e with
      | .list [k, .atom "!"] => do pure (← k.str?, none)
      | .list [k, r] => do pure (← k.str?, some (← r.str?))
      | _ => none)
  | _ => none

/-- `( <floats> <timestamps> <binaries> )`; a string missing from a table is
reported by the marker value `"<ext-miss>"` so that the harness notices. -/
def toExt : Sexp → Option Ext
  | .list [f, t, b] => do
    let f ← toFloatTable f
    let t ← toStrTable t
    let b ← toStrTable b
    pure { yamlFloat := fun s => match f.lookup s with | some r => r | none => some ("<ext-miss>", none),
           yamlTimestamp := fun s => match t.lookup s with | some r => r | none => some "<ext-miss>",
           yamlBinary := fun s => match b.lookup s with | some r => r | none => some "<ext-miss>" }
  | _ => none

def showErr : OpErr → String
  | .seasoning => "SeasoningError" | .value => "ValueError" | .type_ => "TypeError"
  | .runtime => "RuntimeError" | .scalarCtor => "scalar-constructor-error" | .misuse => "misuse"

end YatimlModel.Driver
