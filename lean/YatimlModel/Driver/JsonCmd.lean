import YatimlModel.Model.Wire
import YatimlModel.Model.Json
import YatimlModel.Model.JsonString
import YatimlModel.Model.Regex
import YatimlModel.Spec.JsonParse
/-! Driver commands for the JSON emitter model. -/
namespace YatimlModel.Driver
open YatimlModel.Wire YatimlModel.Json

def asciiLower (s : String) : String :=
  String.ofList (s.toList.map (fun c => if 'A' ≤ c ∧ c ≤ 'Z' then Char.ofNat (c.toNat + 32) else c))

def mkFns (ascii : Bool) : TextFns :=
  { dumps := fun s => codesToString (JsonString.dumps ascii (codes s)), lower := asciiLower }

def mkCfg (indented : Bool) (best : Nat) (ascii : Bool) : Cfg :=
  { indented := indented, best := best, kvsep := if indented then ": " else ":", fns := mkFns ascii }

def skOf : String → Option SK
  | "str" => some .str | "null" => some .null | "bool" => some .bool
  | "timestamp" => some .timestamp | "other" => some .other | _ => none

partial def toJT : Sexp → Option JT
  | .list [.atom "s", .atom k, v] => do
    let k ← skOf k
    let v ← v.str?
    pure (.scalar k v)
  | .list (.atom "a" :: xs) => do
    let ys ← xs.mapM toJT
    pure (.arr (ys.foldr JL.cons JL.nil))
  | .list (.atom "o" :: xs) =>
    let rec go : List Sexp → Option JKL
      | [] => some .nil
      | k :: v :: rest => do
        let k ← toJT k
        let v ← toJT v
        let r ← go rest
        pure (.cons k v r)
      | _ => none
    (go xs).map JT.obj
  | _ => none

def jsOfNat : Nat → Option JS
  | 0 => some .none | 1 => some .seq | 2 => some .seqFirst | 3 => some .mapKey
  | 4 => some .mapKeyFirst | 5 => some .mapValue | _ => none
def jsToNat : JS → Nat
  | .none => 0 | .seq => 1 | .seqFirst => 2 | .mapKey => 3 | .mapKeyFirst => 4 | .mapValue => 5

def evOf : List Sexp → Option Ev
  | [.atom "seqStart"] => some .seqStart | [.atom "seqEnd"] => some .seqEnd
  | [.atom "mapStart"] => some .mapStart | [.atom "mapEnd"] => some .mapEnd
  | [.atom "docEnd"] => some .docEnd | [.atom "other"] => some .other | [.atom "alias"] => some .alias
  | [.atom "scalar", .atom k, v] => do
    let k ← skOf k
    let v ← v.str?
    pure (.scalar k v)
  | _ => none

/-- `jtree <indented> <best> <ascii> <tree>` -/
def cmdJtree : List Sexp → String
  | [i, b, a, t] =>
    match i.bool?, b.nat?, a.bool?, toJT t with
    | some i, some b, some a, some t =>
      let cfg := mkCfg i b a
      match run cfg init (evDoc t) with
      | some (st, out) =>
        let same := decide (out = renderDoc cfg t)
        s!"ok {hex (textOf "\n" out)} {st.stack.map jsToNat} {st.ind} {same}"
      | none => "raise"
    | _, _, _, _ => "bad-args"
  | _ => "bad-args"

/-- `jstep <indented> <best> <ascii> <ind> (<stack, top first>) <event...>` -/
def cmdJstep : List Sexp → String
  | i :: b :: a :: ind :: .list stk :: ev =>
    match i.bool?, b.nat?, a.bool?, ind.nat?, stk.mapM (fun x => x.nat? >>= jsOfNat), evOf ev with
    | some i, some b, some a, some ind, some stk, some ev =>
      match emit (mkCfg i b a) { stack := stk, ind := ind } ev with
      | some (st, out) => s!"ok {st.stack.map jsToNat} {st.ind} {hex (textOf "\n" out)}"
      | none => "raise"
    | _, _, _, _, _, _ => "bad-args"
  | _ => "bad-args"

/-- `jstr <ascii> <hex>`: `json.dumps` of a str, on code points -/
def cmdJstr : List Sexp → String
  | [a, s] =>
    match a.bool?, s.codes? with
    | some a, some cs =>
      let out := JsonString.dumps a cs
      s!"{out} {JsonString.validJsonString out}"
    | _, _ => "bad-args"
  | _ => "bad-args"

open YatimlModel.JsonParse in
mutual
/-- canonical one-line rendering of a parsed JSON value (code points as decimal numbers) -/
partial def showJV : JV → String
  | .null => "n"
  | .bool b => if b then "t" else "f"
  | .num cs => s!"#{cs}"
  | .str cs => s!"s{cs}"
  | .arr xs => "[" ++ showJVs xs ++ "]"
  | .obj kvs => "{" ++ showJKVs kvs ++ "}"
partial def showJVs : JVs → String
  | .nil => ""
  | .cons x xs => showJV x ++ ";" ++ showJVs xs
partial def showJKVs : JKVs → String
  | .nil => ""
  | .cons k v rest => s!"s{k}" ++ ":" ++ showJV v ++ ";" ++ showJKVs rest
end

/-- `jparse <hex text>`: the RFC 8259 reference parser of `Spec/JsonParse` on a text -/
def cmdJparse : List Sexp → String
  | [s] =>
    match s.codes? with
    | some cs =>
      match JsonParse.parseJson cs with
      | some v => "ok " ++ showJV v
      | none => "reject"
    | none => "bad-args"
  | _ => "bad-args"

end YatimlModel.Driver
