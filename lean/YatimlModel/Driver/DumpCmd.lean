import YatimlModel.Driver.LoadWire
import YatimlModel.Model.Represent
import YatimlModel.Spec.JsonProjection
import YatimlModel.Driver.JsonCmd
/-! Driver command `represent <dumpenv> <value>`. -/
namespace YatimlModel.Driver
open YatimlModel.Wire

partial def toVal : Sexp → Option PyVal
  | .list [.atom "date", r] => do pure (.date (← r.str?))
  | .list [.atom "bytes", r] => do pure (.bytes (← r.str?))
  | .list [.atom "path", s] => do pure (.path (← s.str?))
  | .list [.atom "enum", c, n] => do pure (.enumMember (← c.str?) (← n.str?))
  | .list [.atom "ustr", c, s] => do pure (.userStr (← c.str?) (← s.str?))
  | .list (.atom "list" :: xs) => do pure (.list (PyVals.ofList (← xs.mapM toVal)))
  | .list (.atom "dict" :: xs) => do pure (.dict (PyKVs.ofList (← pairsOf xs)))
  | .list (.atom "obj" :: c :: xs) => do pure (.obj (← c.str?) (PyKVs.ofList (← pairsOf xs)))
  | s => (toScalar s).map PyVal.scalar
where
  pairsOf : List Sexp → Option (List (PyVal × PyVal))
    | [] => some []
    | k :: v :: rest => do
      let k ← toVal k
      let v ← toVal v
      let r ← pairsOf rest
      pure ((k, v) :: r)
    | _ => none

def toDumpClass : Sexp → Option DumpClass
  | .list [.atom "dclass", name, bases, kind, own, mro] => do
    let mro' ← (match mro with
      | .atom "~" => some none
      | .list [o, .list ops] => do pure (some ((← o.str?), (← ops.mapM toSavOp)))
      | _ => none)
    pure { name := ← name.str?, bases := ← toStrList bases, kind := ← toKind kind,
           sweetenOwn := ← optProg toSavOp own, sweetenMro := mro' }
  | _ => none

def toDumpEnv : Sexp → Option DumpEnv
  | .list [.atom "denv", .list cs, b] => do pure ⟨← cs.mapM toDumpClass, ← toStrList b⟩
  | _ => none

def showDumpErr : DumpErr → String
  | .noRepresenter w => s!"( norepresenter {hex w} )"
  | .sweeten => "( sweeten )"
  | .other w => s!"( other {hex w} )"
  | .fuel => "( fuel )"

def cmdRepresent : List Sexp → String
  | [env, v] =>
    match toDumpEnv env, toVal v with
    | some env, some v =>
      (match represent env 100000 v with
       | .ok o => "ok " ++ showNode o.node ++ " | ( " ++ String.intercalate " " (o.trace.map hex) ++ " )"
       | .error e => "err " ++ showDumpErr e)
    | _, _ => "bad-args"
  | _ => "bad-args"

/-- `jproject <value>`: the JSON projection `jsonOf` of a value (Spec/JsonProjection), or `outside` -/
def cmdJproject : List Sexp → String
  | [v] =>
    match toVal v with
    | some v =>
      (match C07.jsonOf 100000 v with
       | some jv => "ok " ++ showJV jv
       | none => "outside")
    | none => "bad-args"
  | _ => "bad-args"

end YatimlModel.Driver
