import YatimlModel.Driver.LoadWire
import YatimlModel.Gen.LoaderResolvers
/-! Driver commands `recognize`, `process`, `load`. -/
namespace YatimlModel.Driver
open YatimlModel.Wire

def FUEL : Nat := 100000

def cmdRecognize : List Sexp → String
  | [env, node, ty] =>
    match toEnv env, toNode node, toTy ty with
    | some env, some n, some T =>
      (match recognize env FUEL n T with
       | .ok (ts, leaves) =>
         "ok ( " ++ String.intercalate " " (ts.map showTy) ++ " ) ( "
           ++ String.intercalate " " (leaves.map showLeaf) ++ " )"
       | .error f => "fatal " ++ showFatal f)
    | _, _, _ => "bad-args"
  | _ => "bad-args"

def cmdProcess : List Sexp → String
  | [env, node, ty] =>
    match toEnv env, toNode node, toTy ty with
    | some env, some n, some T =>
      (match processNode env Gen.loaderTable FUEL n T with
       | .ok o => "ok " ++ showNode o.node ++ " | ( " ++ String.intercalate " " (o.trace.map hex) ++ " )"
       | .error e => "err " ++ showErrL e)
    | _, _, _ => "bad-args"
  | _ => "bad-args"

def cmdLoad : List Sexp → String
  | [env, node, ty] =>
    match toEnv env, toNode node, toTy ty with
    | some env, some n, some T =>
      (match loadNode env Gen.loaderTable FUEL n T with
       | .ok o => "ok " ++ showVal o.value ++ " | " ++ showCalls o.calls ++ " | ( "
                    ++ String.intercalate " " (o.trace.map hex) ++ " ) | " ++ showNode o.processed
       | .error f => "err " ++ showErrL f.err ++ " | " ++ showCalls f.calls)
    | _, _, _ => "bad-args"
  | _ => "bad-args"

end YatimlModel.Driver
