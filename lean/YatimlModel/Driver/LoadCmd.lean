import YatimlModel.Driver.LoadWire
import YatimlModel.Spec.AliasShape
import YatimlModel.Gen.LoaderResolvers
/-! Driver commands `recognize`, `process`, `load`. -/
namespace YatimlModel.Driver
open YatimlModel.Wire

def FUEL : Nat := 100000

def cmdRecognize : List Sexp → String
  | [env, node, ty] =>
    match toEnv env, toNode node, toTy ty with
    | some env, some n, some T =>
      (match recognize env FUEL n T with
       | .ok (ts, leaves) =>
         "ok ( " ++ String.intercalate " " (ts.map showTy) ++ " ) ( "
           ++ String.intercalate " " (leaves.map showLeaf) ++ " )"
       | .error f => "fatal " ++ showFatal f)
    | _, _, _ => "bad-args"
  | _ => "bad-args"

def cmdProcess : List Sexp → String
  | [env, node, ty] =>
    match toEnv env, toNode node, toTy ty with
    | some env, some n, some T =>
      (match processNode env Gen.loaderTable FUEL n T with
       | .ok o => "ok " ++ showNode o.node ++ " | ( " ++ String.intercalate " " (o.trace.map hex) ++ " )"
       | .error e => "err " ++ showErrL e)
    | _, _, _ => "bad-args"
  | _ => "bad-args"

def cmdLoad : List Sexp → String
  | [env, node, ty] =>
    match toEnv env, toNode node, toTy ty with
    | some env, some n, some T =>
      (match loadNode env Gen.loaderTable FUEL n T with
       | .ok o => "ok " ++ showVal o.value ++ " | " ++ showCalls o.calls ++ " | ( "
                    ++ String.intercalate " " (o.trace.map hex) ++ " ) | " ++ showNode o.processed
       | .error f => "err " ++ showErrL f.err ++ " | " ++ showCalls f.calls ++ " | " ++
                       (match processNode env Gen.loaderTable FUEL n T with
                        | .ok _ => "construct" | .error _ => "process"))
    | _, _, _ => "bad-args"
  | _ => "bad-args"

/-- `reqops <env> <node> ( op ) ...`: each `UnknownNode.require_*` call on the node, separately -/
def cmdReqOps : List Sexp → String
  | env :: node :: ops =>
    match toEnv env, toNode node, ops.mapM toRecOp with
    | some env, some n, some ops =>
      String.intercalate " " (ops.map (fun op =>
        match runRecOp env.ext (fun x U => recognize env FUEL x U) n op with
        | .ok none => "ok"
        | .ok (some _) => "raise"
        | .error f => "fatal:" ++ showFatal f))
    | _, _, _ => "bad-args"
  | _ => "bad-args"

def optAnchor : Sexp → Option (Option String)
  | .atom "~" => some none
  | s => s.str?.map some

partial def toDoc : Sexp → Option Doc
  | .list [.atom "DS", a, t, v, l, c] => do
    pure (.scalar (← optAnchor a) (← t.str?) (← v.str?) ⟨← l.nat?, ← c.nat?⟩)
  | .list (.atom "DQ" :: a :: t :: l :: c :: xs) => do
    let ys ← xs.mapM toDoc
    pure (.seq (← optAnchor a) (← t.str?) (ys.foldr Docs.cons Docs.nil) ⟨← l.nat?, ← c.nat?⟩)
  | .list (.atom "DM" :: a :: t :: l :: c :: xs) => do
    let rec go : List Sexp → Option DocPairs
      | [] => some .nil
      | k :: v :: rest => do
        let k ← toDoc k
        let v ← toDoc v
        let r ← go rest
        pure (.cons k v r)
      | _ => none
    pure (.map (← optAnchor a) (← t.str?) (← go xs) ⟨← l.nat?, ← c.nat?⟩)
  | .list [.atom "DA", n, l, c] => do pure (.alias (← n.str?) ⟨← l.nat?, ← c.nat?⟩)
  | _ => none

def cmdLoadDoc : List Sexp → String
  | [env, doc, ty] =>
    match toEnv env, toDoc doc, toTy ty with
    | some env, some d, some T =>
      (match loadDoc env Gen.loaderTable FUEL d T with
       | .ok o => "ok " ++ showVal o.value ++ " | " ++ showCalls o.calls ++ " | ( "
                    ++ String.intercalate " " (o.trace.map hex) ++ " ) | " ++ showNode o.processed
       | .error f => "err " ++ showErrL f.err ++ " | " ++ showCalls f.calls ++ " | " ++
                       (match expandDoc [] [] d with
                        | .ok (n, _) => (match processNode env Gen.loaderTable FUEL n T with
                                         | .ok _ => "construct" | .error _ => "process")
                        | .error _ => "expand"))
    | _, _, _ => "bad-args"
  | _ => "bad-args"

/-- `docshape <doc>`: the syntactic shape of a composed document — self-referential? well-scoped? — and
whether alias expansion yields a tree, a cycle error or an undefined-anchor error -/
def cmdDocShape : List Sexp → String
  | [doc] =>
    match toDoc doc with
    | some d =>
      "selfref=" ++ (if C18.selfRef [] d then "1" else "0") ++
      " scoped=" ++ (if (C18.scopedDoc [] [] d).isSome then "1" else "0") ++
      " expand=" ++ (match expandDoc [] [] d with
                     | .ok _ => "tree" | .error (.cycle _) => "cycle" | .error .undefined => "undefined")
    | none => "bad-args"
  | _ => "bad-args"

end YatimlModel.Driver
