import YatimlModel.Driver.NodeCmd
import YatimlModel.Model.Load
/-! Wire format of types, class models and load outcomes. -/
namespace YatimlModel.Driver
open YatimlModel.Wire YatimlModel.NodeOps

def toSeqKind : Sexp → Option SeqKind
  | .atom "list" => some .list | .atom "sequence" => some .sequence
  | .atom "mutablesequence" => some .mutableSequence | _ => none
def toMapKind : Sexp → Option MapKind
  | .atom "dict" => some .dict | .atom "mapping" => some .mapping
  | .atom "mutablemapping" => some .mutableMapping | _ => none

partial def toTy : Sexp → Option Ty
  | .atom "str" => some .str | .atom "int" => some .int | .atom "float" => some .float
  | .atom "bool" => some .bool | .atom "boolfix" => some .boolFix | .atom "null" => some .null
  | .atom "date" => some .date | .atom "path" => some .path | .atom "any" => some .any
  | .list [.atom "seq", k, t] => do pure (.seq (← toSeqKind k) (← toTy t))
  | .list [.atom "map", k, a, b] => do pure (.map (← toMapKind k) (← toTy a) (← toTy b))
  | .list (.atom "union" :: ts) => do pure (.union (Tys.ofList (← ts.mapM toTy)))
  | .list [.atom "cls", n] => do pure (.cls (← n.str?))
  | _ => none

def showSeqKind : SeqKind → String
  | .list => "list" | .sequence => "sequence" | .mutableSequence => "mutablesequence"
def showMapKind : MapKind → String
  | .dict => "dict" | .mapping => "mapping" | .mutableMapping => "mutablemapping"

mutual
partial def showTy : Ty → String
  | .str => "str" | .int => "int" | .float => "float" | .bool => "bool" | .boolFix => "boolfix"
  | .null => "null" | .date => "date" | .path => "path" | .any => "any"
  | .seq k t => s!"( seq {showSeqKind k} {showTy t} )"
  | .map k a b => s!"( map {showMapKind k} {showTy a} {showTy b} )"
  | .union ms => s!"( union{showTys ms} )"
  | .cls n => s!"( cls {hex n} )"
partial def showTys : Tys → String
  | .nil => ""
  | .cons t ts => " " ++ showTy t ++ showTys ts
end

def toStrList : Sexp → Option (List String)
  | .list xs => xs.mapM Sexp.str?
  | _ => none

def toRecOp : Sexp → Option RecOp
  | .list (.atom "rscalar" :: ts) => some (.requireScalar (ts.map toTyp))
  | .list [.atom "rmapping"] => some .requireMapping
  | .list [.atom "rsequence"] => some .requireSequence
  | .list [.atom "rattr", a, .atom "~"] => do pure (.requireAttribute (← a.str?) none)
  | .list [.atom "rattr", a, t] => do pure (.requireAttribute (← a.str?) (some (← toTy t)))
  | .list [.atom "rval", a, v] => do pure (.requireAttributeValue (← a.str?) (← toScalar v))
  | .list [.atom "rvalnot", a, v] => do pure (.requireAttributeValueNot (← a.str?) (← toScalar v))
  | .list [.atom "rraise"] => some .raiseRecognition
  | .list [.atom "rother"] => some .raiseOther
  | _ => none

def toSavOp : Sexp → Option SavOp
  | .list [.atom "set", a, v] => do pure (.setAttribute (← a.str?) (← toScalar v))
  | .list [.atom "setmissing", a, v] => do pure (.setIfMissing (← a.str?) (← toScalar v))
  | .list [.atom "remove", a] => do pure (.removeAttribute (← a.str?))
  | .list [.atom "rename", a, b] => do pure (.renameAttribute (← a.str?) (← b.str?))
  | .list [.atom "d2u"] => some .dashesToUnders
  | .list [.atom "u2d"] => some .undersToDashes
  | .list [.atom "seq2map", a, k, v, s] => do pure (.seqToMap (← a.str?) (← k.str?) (← optStr v) (← s.bool?))
  | .list [.atom "map2seq", a, k, v] => do pure (.mapToSeq (← a.str?) (← k.str?) (← optStr v))
  | .list [.atom "idx2map", a, k, v] => do pure (.indexToMap (← a.str?) (← k.str?) (← optStr v))
  | .list [.atom "map2idx", a, k, v] => do pure (.mapToIndex (← a.str?) (← k.str?) (← optStr v))
  | .list [.atom "scalar2map", a] => do pure (.scalarToMapping (← a.str?))
  | .list [.atom "replace", v] => do pure (.replaceByScalar (← toScalar v))
  | .list [.atom "fail"] => some .raiseSeasoning
  | .list [.atom "other"] => some .raiseOther
  | _ => none

def optProg {α : Type} (f : Sexp → Option α) : Sexp → Option (Option (List α))
  | .atom "~" => some none
  | .list xs => (xs.mapM f).map some
  | _ => none

def toParam : Sexp → Option Param
  | .list [n, t, a, r] => do pure ⟨← n.str?, ← toTy t, ← a.bool?, ← r.bool?⟩
  | _ => none

def toKind : Sexp → Option ClassKind
  | .atom "plain" => some .plain
  | .atom "strlike" => some .stringLike
  | .list (.atom "enum" :: ms) => (ms.mapM Sexp.str?).map ClassKind.enum
  | _ => none

/-- `~` never raises; `( k v )` raises iff the keyword arguments contain `k = v` -/
def toInitRaises : Sexp → Option (List (String × PyScalar) → Bool)
  | .atom "~" => some (fun _ => false)
  | .list [k, v] => do
    let k ← k.str?
    let v ← toScalar v
    pure (fun kw => kw.any (fun e => e.1 == k && e.2 == v))
  | _ => none

def toClassDef : Sexp → Option ClassDef
  | .list [.atom "class", name, bases, ancestors, kind, abstr, .list params, args, xt, rec, sav, ir] => do
    pure { name := ← name.str?, bases := ← toStrList bases, ancestors := ← toStrList ancestors,
           kind := ← toKind kind, abstract := ← abstr.bool?, params := ← params.mapM toParam,
           argNames := ← toStrList args,
           extraTy := ← (match xt with | .atom "~" => some none | t => (toTy t).map some),
           recognize := ← optProg toRecOp rec,
           savorize := ← optProg toSavOp sav, initRaises := ← toInitRaises ir }
  | _ => none

def toEnv : Sexp → Option Env
  | .list [.atom "env", .list cs, ext] => do pure ⟨← cs.mapM toClassDef, ← toExt ext⟩
  | _ => none

/-! ### printing outcomes -/

mutual
partial def showVal : PyVal → String
  | .scalar v => showScalar v
  | .date r => s!"( date {hex r} )"
  | .bytes r => s!"( bytes {hex r} )"
  | .list xs => s!"( list{showVals xs} )"
  | .dict kvs => s!"( dict{showKVs kvs} )"
  | .obj c kw => s!"( obj {hex c}{showKVs kw} )"
  | .enumMember c n => s!"( enum {hex c} {hex n} )"
  | .userStr c s => s!"( ustr {hex c} {hex s} )"
  | .path s => s!"( path {hex s} )"
partial def showVals : PyVals → String
  | .nil => ""
  | .cons x xs => " " ++ showVal x ++ showVals xs
partial def showKVs : PyKVs → String
  | .nil => ""
  | .cons k v r => " " ++ showVal k ++ " " ++ showVal v ++ showKVs r
end

def showCall (c : Call) : String := s!"( call {hex c.cls}{showKVs (PyKVs.ofList c.kwargs)} )"
def showCalls (cs : List Call) : String := "( " ++ String.intercalate " " (cs.map showCall) ++ " )"

def showLeaf (l : Leaf) : String :=
  "( leaf ( " ++ String.intercalate " " (l.marks.map (fun m => s!"{m.line}:{m.col}")) ++ " ) ( "
    ++ String.intercalate " " (l.keys.map hex) ++ " ) )"

def showErrL : LoadErr → String
  | .recognition ls => "( rec " ++ String.intercalate " " (ls.map showLeaf) ++ " )"
  | .yaml k => s!"( yaml {k} )"
  | .other t => s!"( other {t} )"
  | .fuel => "( fuel )"

def showFatal : Fatal → String
  | .seasoning _ => "seasoning" | .hook => "hook" | .unregistered => "unregistered"
  | .dictKey => "dictkey" | .fuel => "fuel"

end YatimlModel.Driver
