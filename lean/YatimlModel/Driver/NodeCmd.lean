import YatimlModel.Driver.NodeWire
/-! Driver command `nodeops <ext> <node> ( op ) ( op ) ...` -/
namespace YatimlModel.Driver
open YatimlModel.Wire YatimlModel.NodeOps

def toTyp : Sexp → TypArg
  | .atom "str" => .str | .atom "int" => .int | .atom "float" => .float | .atom "bool" => .bool
  | .atom "none" => .none_ | .atom "list" => .list | .atom "dict" => .dict
  | .atom "any" => .anyScalar | _ => .invalid

def optStr : Sexp → Option (Option String)
  | .atom "~" => some none
  | s => s.str?.map some

def toDefault : Sexp → Option PyDefault
  | .atom "other" => some .other
  | .atom "emptylist" => some .emptyList
  | s => (toScalar s).map PyDefault.scalar

def toDefaults : Sexp → Option (List (String × PyDefault))
  | .list xs => xs.mapM (fun e => match e with
      | .list [k, d] => do pure (← k.str?, ← toDefault d)
      | _ => none)
  | _ => none

/-- apply one operation: returns the new node and the rendering of the result -/
def applyOp (ext : Ext) (n : Node) : Sexp → Node × String
  | .list [.atom "is_scalar", t] =>
    (n, match isScalar n (toTyp t) with | .ok b => s!"ok {b}" | .error e => "err " ++ showErr e)
  | .list [.atom "is_mapping"] => (n, s!"ok {isMapping n}")
  | .list [.atom "is_sequence"] => (n, s!"ok {isSequence n}")
  | .list [.atom "get_value"] =>
    (n, match getValue ext n with | .ok v => "ok " ++ showScalar v | .error e => "err " ++ showErr e)
  | .list [.atom "set_value", v] =>
    match toScalar v with
    | some v => (setValue n v, "ok")
    | none => (n, "bad-arg")
  | .list [.atom "make_mapping"] => (makeMapping n, "ok")
  | .list [.atom "has_attribute", a] =>
    match a.str? with
    | some a => (n, match hasAttribute n a with | .ok b => s!"ok {b}" | .error e => "err " ++ showErr e)
    | none => (n, "bad-arg")
  | .list [.atom "has_attribute_type", a, t] =>
    match a.str? with
    | some a => (n, match hasAttributeType n a (toTyp t) with
                    | .ok b => s!"ok {b}" | .error e => "err " ++ showErr e)
    | none => (n, "bad-arg")
  | .list [.atom "get_attribute", a] =>
    match a.str? with
    | some a => (n, match getAttribute n a with
                    | .ok v => "ok " ++ showNode v | .error e => "err " ++ showErr e)
    | none => (n, "bad-arg")
  | .list [.atom "set_attribute", a, .list [.atom "node", v]] =>
    match a.str?, toNode v with
    | some a, some v => (match setAttribute n a v with | .ok n' => (n', "ok") | .error e => (n, "err " ++ showErr e))
    | _, _ => (n, "bad-arg")
  | .list [.atom "set_attribute", a, v] =>
    match a.str?, toScalar v with
    | some a, some v => (match setAttribute n a (nodeOfScalar v) with
                         | .ok n' => (n', "ok") | .error e => (n, "err " ++ showErr e))
    | _, _ => (n, "bad-arg")
  | .list [.atom "remove_attribute", a] =>
    match a.str? with
    | some a => (match removeAttribute n a with | .ok n' => (n', "ok") | .error e => (n, "err " ++ showErr e))
    | none => (n, "bad-arg")
  | .list [.atom "rename_attribute", a, b] =>
    match a.str?, b.str? with
    | some a, some b => (match renameAttribute n a b with
                         | .ok n' => (n', "ok") | .error e => (n, "err " ++ showErr e))
    | _, _ => (n, "bad-arg")
  | .list [.atom "unders_to_dashes"] =>
    (match undersToDashes n with | .ok n' => (n', "ok") | .error e => (n, "err " ++ showErr e))
  | .list [.atom "dashes_to_unders"] =>
    (match dashesToUnders n with | .ok n' => (n', "ok") | .error e => (n, "err " ++ showErr e))
  | .list [.atom "remove_defaults", ds] =>
    match toDefaults ds with
    | some ds => (match removeDefaults ext n ds with
                  | .ok n' => (n', "ok") | .error e => (n, "err " ++ showErr e))
    | none => (n, "bad-arg")
  | .list [.atom "remove_defaults_cls", .list sig, user] =>
    let sig' := sig.mapM (fun e => match e with
      | .list [k, .atom "~"] => do pure ((← k.str?), (none : Option PyDefault))
      | .list [k, d] => do pure ((← k.str?), some (← toDefault d))
      | _ => none)
    match sig', toDefaults user with
    | some sg, some us => (match removeDefaults ext n (defaultedAttributes sg us) with
                  | .ok n' => (n', "ok") | .error e => (n, "err " ++ showErr e))
    | _, _ => (n, "bad-arg")
  | .list [.atom "seq_to_map", a, k, v, s] =>
    match a.str?, k.str?, optStr v, s.bool? with
    | some a, some k, some v, some s =>
      (match seqAttributeToMap n a k v s with | .ok n' => (n', "ok") | .error e => (n, "err " ++ showErr e))
    | _, _, _, _ => (n, "bad-arg")
  | .list [.atom "map_to_seq", a, k, v] =>
    match a.str?, k.str?, optStr v with
    | some a, some k, some v =>
      (match mapAttributeToSeq n a k v with | .ok n' => (n', "ok") | .error e => (n, "err " ++ showErr e))
    | _, _, _ => (n, "bad-arg")
  | .list [.atom "index_to_map", a, k, v] =>
    match a.str?, k.str?, optStr v with
    | some a, some k, some v =>
      (match indexAttributeToMap n a k v with | .ok n' => (n', "ok") | .error e => (n, "err " ++ showErr e))
    | _, _, _ => (n, "bad-arg")
  | .list [.atom "map_to_index", a, k, v] =>
    match a.str?, k.str?, optStr v with
    | some a, some k, some v =>
      (match mapAttributeToIndex n a k v with | .ok n' => (n', "ok") | .error e => (n, "err " ++ showErr e))
    | _, _, _ => (n, "bad-arg")
  | _ => (n, "bad-op")

def cmdNodeOps : List Sexp → String
  | ext :: node :: ops =>
    match toExt ext, toNode node with
    | some ext, some n =>
      let (n', outs) := ops.foldl (fun (acc : Node × List String) op =>
        let (n2, o) := applyOp ext acc.1 op
        (n2, o :: acc.2)) (n, [])
      String.intercalate " | " outs.reverse ++ " || " ++ showNode n'
    | _, _ => "bad-args"
  | _ => "bad-args"

end YatimlModel.Driver
