import YatimlModel.Model.Wire
import YatimlModel.Gen.Registry
/-! Driver command `regshape <kind> (<factory loop counts>) (<call loop counts>) (<attribute names>)`:
runs the factory and then one call of the regenerated registry programs and prints, for the
function's class and for the call's instance, where each attribute resolves. -/
namespace YatimlModel.Driver
open YatimlModel.Wire YatimlModel.Reg

def showV (σ : St) : Option V → String
  | none => "missing"
  | some V.none => "none"
  | some (V.atom _) => "atom"
  | some (V.ref l i) =>
    match σ.get l i with
    | some (.tbl inner) => s!"t{l}.{i}/{inner}"
    | some (.cls _ _) => s!"c{l}.{i}"
    | some (.inst _ _) => s!"i{l}.{i}"
    | none => s!"dangling{l}.{i}"

def showAttrs (σ : St) (v : V) (attrs : List Nat) : String :=
  " ".intercalate (attrs.map (fun a => s!"{a}:{if hasOwn σ v a then 1 else 0}:{showV σ (getAttr σ v a)}"))

def cmdRegShape : List Sexp → String
  | [k, .list fc, .list cc, .list attrs] =>
    match k.nat?, fc.mapM Sexp.nat?, cc.mapM Sexp.nat?, attrs.mapM Sexp.nat? with
    | some k, some fc, some cc, some attrs =>
      let P := Gen.Registry.progs
      let r := P.create P.base k fc
      let f := P.fnOf k r
      let c := P.doCall (r.space 0) f cc
      let clsV := f.cls.getD V.none
      let selfV := (c.env.lookup 8).getD V.none
      let baseSame := decide (r.space 0 = P.base) && decide (c.space 0 = P.base) && decide (c.space 1 = f.region)
      s!"ok {r.ok} {c.ok} {baseSame} | {showAttrs r clsV attrs} | {showAttrs c selfV attrs}"
    | _, _, _, _ => "bad-args"
  | _ => "bad-args"

end YatimlModel.Driver
