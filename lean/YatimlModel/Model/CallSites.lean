/-!
How the generated load/dump function objects hand their argument to PyYAML: one record per
`yaml.load` / `yaml.dump` call in a `__call__`, with the branch it sits in.
-/
namespace YatimlModel

structure CallSite where
  factory : String                    -- `load_function`, `dumps_function`, …
  cls : String                        -- `LoadFunction`, …
  params : List String                -- parameters of `__call__` (without `self`)
  branch : List String                -- enclosing `if` tests / `with` items, outermost first
  callee : String                     -- `yaml.load` / `yaml.dump`
  args : List String                  -- positional arguments (source text; `self.x` resolved)
  kwargs : List (String × String)     -- keyword arguments
  returned : Bool                     -- the call's result is what `__call__` returns
  deriving DecidableEq, Repr

end YatimlModel
