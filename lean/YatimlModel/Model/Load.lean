import YatimlModel.Model.Construct
/-!
`LoadFunction.__call__` from the composed document on: alias expansion (the
composer's node graph with shared nodes becomes a tree, cycles are rejected),
`__process_node` against the document type, construction.
-/
namespace YatimlModel

-- the composer output: a tree in which an aliased node is a reference to an anchored one
mutual
inductive Doc where
  | scalar (anchor : Option String) (tag : String) (value : String) (m : Mark)
  | seq (anchor : Option String) (tag : String) (items : Docs) (m : Mark)
  | map (anchor : Option String) (tag : String) (pairs : DocPairs) (m : Mark)
  | alias (name : String) (m : Mark)
inductive Docs where
  | nil
  | cons (x : Doc) (xs : Docs)
inductive DocPairs where
  | nil
  | cons (k v : Doc) (rest : DocPairs)
end
deriving instance Repr for Doc
instance : Inhabited Doc := ⟨.alias "" ⟨0, 0⟩⟩

def Docs.toList : Docs → List Doc
  | .nil => []
  | .cons x xs => x :: xs.toList
def DocPairs.toList : DocPairs → List (Doc × Doc)
  | .nil => []
  | .cons k v r => (k, v) :: r.toList

/-- an empty stream is a null document -/
def emptyDocument : Node := .scalar tNull "" ⟨0, 0⟩

structure LoadOut where
  value : PyVal
  calls : List Call            -- user-constructor calls, in order
  trace : List String          -- savorize hooks, in order
  processed : Node             -- the tree handed to the constructors

structure LoadFail where
  err : LoadErr
  calls : List Call

abbrev LoadRes := Except LoadFail LoadOut

/-- load from an (alias-free) node tree -/
def loadNode (env : Env) (tbl : List Entry) (fuel : Nat) (n : Node) (T : Ty) : LoadRes :=
  match processNode env tbl fuel n T with
  | .error e => .error ⟨e, []⟩
  | .ok p =>
    match construct env tbl fuel p.node with
    | .error (e, calls) => .error ⟨e, calls⟩
    | .ok c => .ok ⟨c.value, c.calls, p.trace, p.node⟩

end YatimlModel
