import YatimlModel.Model.Construct
/-!
`LoadFunction.__call__` from the composed document on: alias expansion (the
composer's node graph with shared nodes becomes a tree, cycles are rejected),
`__process_node` against the document type, construction.
-/
namespace YatimlModel

-- the composer output: a tree in which an aliased node is a reference to an anchored one
mutual
inductive Doc where
  | scalar (anchor : Option String) (tag : String) (value : String) (m : Mark)
  | seq (anchor : Option String) (tag : String) (items : Docs) (m : Mark)
  | map (anchor : Option String) (tag : String) (pairs : DocPairs) (m : Mark)
  | alias (name : String) (m : Mark)
inductive Docs where
  | nil
  | cons (x : Doc) (xs : Docs)
inductive DocPairs where
  | nil
  | cons (k v : Doc) (rest : DocPairs)
end
deriving instance Repr for Doc
instance : Inhabited Doc := ⟨.alias "" ⟨0, 0⟩⟩

def Docs.toList : Docs → List Doc
  | .nil => []
  | .cons x xs => x :: xs.toList
def DocPairs.toList : DocPairs → List (Doc × Doc)
  | .nil => []
  | .cons k v r => (k, v) :: r.toList

/-! ### alias expansion (`Loader.__expand_aliases` on the composer's node graph)

PyYAML's composer registers an anchor *before* it composes the node's children, so an alias inside the
anchored node refers to the node under construction: a cycle.  `opened` lists the anchors of the nodes
currently being expanded; an alias to one of them is rejected, an alias to a finished anchor is
replaced by (a copy of) the expanded node.  Anchors are unique in a composed document and aliases refer
to anchors seen earlier (the composer raises ComposerError otherwise), so a missing anchor is reported
as `undefined`, which never happens for composer output. -/

inductive ExpandErr where
  | cycle (m : Mark)
  | undefined
  deriving DecidableEq, Repr

abbrev Anchors := List (String × Node)

def noteAnchor (a : Option String) (n : Node) (env : Anchors) : Anchors :=
  match a with
  | some name => (name, n) :: env
  | none => env

def openAnchor (a : Option String) (m : Mark) (opened : List (String × Mark)) : List (String × Mark) :=
  match a with
  | some name => (name, m) :: opened
  | none => opened

mutual
def expandDoc (opened : List (String × Mark)) (env : Anchors) : Doc → Except ExpandErr (Node × Anchors)
  | .scalar a t v m => .ok (.scalar t v m, noteAnchor a (.scalar t v m) env)
  | .seq a t xs m =>
    match expandDocs (openAnchor a m opened) env xs with
    | .error e => .error e
    | .ok (ys, env') => .ok (.seq t ys m, noteAnchor a (.seq t ys m) env')
  | .map a t ps m =>
    match expandPairs (openAnchor a m opened) env ps with
    | .error e => .error e
    | .ok (qs, env') => .ok (.map t qs m, noteAnchor a (.map t qs m) env')
  | .alias name _ =>
    match opened.lookup name with
    | some am => .error (.cycle am)          -- the error cites the node that contains itself
    | none =>
    match env.lookup name with
      | some n => .ok (n, env)
      | none => .error .undefined
def expandDocs (opened : List (String × Mark)) (env : Anchors) : Docs → Except ExpandErr (Nodes × Anchors)
  | .nil => .ok (.nil, env)
  | .cons x xs =>
    match expandDoc opened env x with
    | .error e => .error e
    | .ok (y, env1) =>
      match expandDocs opened env1 xs with
      | .error e => .error e
      | .ok (ys, env2) => .ok (.cons y ys, env2)
def expandPairs (opened : List (String × Mark)) (env : Anchors) : DocPairs → Except ExpandErr (Pairs × Anchors)
  | .nil => .ok (.nil, env)
  | .cons k v r =>
    match expandDoc opened env k with
    | .error e => .error e
    | .ok (k', env1) =>
      match expandDoc opened env1 v with
      | .error e => .error e
      | .ok (v', env2) =>
        match expandPairs opened env2 r with
        | .error e => .error e
        | .ok (r', env3) => .ok (.cons k' v' r', env3)
end

-- an alias-free, anchor-free document for a node tree
mutual
def Doc.ofNode : Node → Doc
  | .scalar t v m => .scalar none t v m
  | .seq t xs m => .seq none t (Docs.ofNodes xs) m
  | .map t ps m => .map none t (DocPairs.ofPairs ps) m
def Docs.ofNodes : Nodes → Docs
  | .nil => .nil
  | .cons x xs => .cons (Doc.ofNode x) (Docs.ofNodes xs)
def DocPairs.ofPairs : Pairs → DocPairs
  | .nil => .nil
  | .cons k v r => .cons (Doc.ofNode k) (Doc.ofNode v) (DocPairs.ofPairs r)
end

/-- an empty stream is a null document -/
def emptyDocument : Node := .scalar tNull "" ⟨0, 0⟩

structure LoadOut where
  value : PyVal
  calls : List Call            -- user-constructor calls, in order
  trace : List String          -- savorize hooks, in order
  processed : Node             -- the tree handed to the constructors

structure LoadFail where
  err : LoadErr
  calls : List Call

abbrev LoadRes := Except LoadFail LoadOut

/-- load from an (alias-free) node tree -/
def loadNode (env : Env) (tbl : List Entry) (fuel : Nat) (n : Node) (T : Ty) : LoadRes :=
  match processNode env tbl fuel n T with
  | .error e => .error ⟨e, []⟩
  | .ok p =>
    match construct env tbl fuel p.node with
    | .error (e, calls) => .error ⟨e, calls⟩
    | .ok c => .ok ⟨c.value, c.calls, p.trace, p.node⟩

/-- load from the composer's output: expand aliases (rejecting cycles), then `loadNode` -/
def loadDoc (env : Env) (tbl : List Entry) (fuel : Nat) (d : Doc) (T : Ty) : LoadRes :=
  match expandDoc [] [] d with
  | .error (.cycle m) => .error ⟨.recognition [⟨[m], []⟩], []⟩
  | .error .undefined => .error ⟨.yaml "ComposerError", []⟩
  | .ok (n, _) => loadNode env tbl fuel n T

end YatimlModel
