/-!
Regular expressions over code points, Brzozowski derivatives with smart
constructors, and `rmatch`.  This is the model of CPython's `re.match` for the
constructs the translator admits (literal, class, branch, group, greedy repeat,
`^`, `$`): Python's start anchoring, prefix matching and the `$`-before-final-
newline rule are encoded by the translator in the regex itself, so that one
notion of full match (`rmatch`) is all the model needs.
-/
namespace YatimlModel

abbrev CSet := List (Nat × Nat)
/-- membership, written with the Bool-valued `Nat.ble` the kernel evaluates natively -/
def CSet.mem (cs : CSet) (c : Nat) : Bool := cs.any (fun p => Nat.ble p.1 c && Nat.ble c p.2)
def CSet.beq : CSet → CSet → Bool
  | [], [] => true
  | p :: xs, q :: ys => Nat.beq p.1 q.1 && Nat.beq p.2 q.2 && CSet.beq xs ys
  | _, _ => false

inductive Re where
  | empty | eps
  | set (cs : CSet)
  | cat (a b : Re)
  | alt (a b : Re)
  | star (a : Re)
  deriving Repr, Inhabited

namespace Re
/-- structural equality as a plain Bool function (cheap for the kernel to evaluate) -/
def beq : Re → Re → Bool
  | empty, empty => true
  | eps, eps => true
  | set a, set b => CSet.beq a b
  | cat a b, cat c d => beq a c && beq b d
  | alt a b, alt c d => beq a c && beq b d
  | star a, star b => beq a b
  | _, _ => false
instance : BEq Re := ⟨beq⟩

def nullable : Re → Bool
  | empty => false | eps => true | set _ => false
  | cat a b => nullable a && nullable b
  | alt a b => nullable a || nullable b
  | star _ => true

def mkCat (a b : Re) : Re :=
  match a, b with
  | empty, _ => empty | _, empty => empty
  | eps, b => b | a, eps => a
  | a, b => cat a b

def altMem (x : Re) : Re → Bool
  | alt a b => (x == a) || altMem x b
  | y => x == y
def mkAlt1 (a b : Re) : Re :=
  match a, b with
  | empty, b => b | a, empty => a
  | a, b => if altMem a b then b else alt a b
def mkAlt : Re → Re → Re
  | alt a1 a2, b => mkAlt1 a1 (mkAlt a2 b)
  | a, b => mkAlt1 a b

def deriv (c : Nat) : Re → Re
  | empty => empty | eps => empty
  | set cs => if cs.mem c then eps else empty
  | cat a b => if nullable a then mkAlt (mkCat (deriv c a) b) (deriv c b) else mkCat (deriv c a) b
  | alt a b => mkAlt (deriv c a) (deriv c b)
  | star a => mkCat (deriv c a) (star a)

def derivs (r : Re) (s : List Nat) : Re := s.foldl (fun r c => deriv c r) r
def rmatch (r : Re) (s : List Nat) : Bool := nullable (derivs r s)

/-- all range boundaries (lo and hi+1) occurring in a regex -/
def bounds : Re → List Nat
  | set cs => cs.foldr (fun p acc => p.1 :: (p.2+1) :: acc) []
  | cat a b => bounds a ++ bounds b
  | alt a b => bounds a ++ bounds b
  | star a => bounds a
  | _ => []

-- convenience constructors used by the hand-written specifications
def opt (r : Re) : Re := alt eps r
def plus (r : Re) : Re := cat r (star r)
def ch (c : Char) : Re := set [(c.toNat, c.toNat)]
def rng (a b : Char) : Re := set [(a.toNat, b.toNat)]
def lit (s : String) : Re := s.toList.foldr (fun c r => mkCat (ch c) r) eps
def alts : List Re → Re
  | [] => empty | [r] => r | r :: rs => alt r (alts rs)
def anyChar : Re := set [(0, 1114111)]
end Re

def codes (s : String) : List Nat := s.toList.map Char.toNat

end YatimlModel
