import YatimlModel.Model.NodeOps
import YatimlModel.Model.Transforms
/-!
The type language yatiml understands, class models, and the hook DSL.

A class model (`Env`) lists the classes passed to `load_function` in
*registration order* (as `add_to_loader` sees them) and, separately, every
class that occurs as a base (registered or not).  What CPython's introspection
decides (`inspect.getfullargspec`, `inspect.isabstract`, `__bases__`, `__mro__`)
is *input* to the model: the harness reads it off the real classes.
-/
namespace YatimlModel

inductive SeqKind | list | sequence | mutableSequence
  deriving DecidableEq, Repr
inductive MapKind | dict | mapping | mutableMapping
  deriving DecidableEq, Repr

mutual
inductive Ty where
  | str | int | float | bool | boolFix | null | date | path | any
  | seq (k : SeqKind) (item : Ty)
  | map (k : MapKind) (key : Ty) (val : Ty)
  | union (ms : Tys)
  | cls (name : String)
inductive Tys where
  | nil
  | cons (t : Ty) (ts : Tys)
end
deriving instance DecidableEq for Ty
deriving instance DecidableEq for Tys
deriving instance Repr for Ty
instance : Inhabited Ty := ⟨.any⟩

def Tys.toList : Tys → List Ty
  | .nil => []
  | .cons t ts => t :: ts.toList
def Tys.ofList : List Ty → Tys
  | [] => .nil
  | t :: ts => .cons t (Tys.ofList ts)
@[simp] theorem Tys.toList_ofList (l : List Ty) : (Tys.ofList l).toList = l := by
  induction l with
  | nil => rfl
  | cons x xs ih => simp [Tys.ofList, Tys.toList, ih]

/-- `scalar_type_to_tag` for the built-in scalar types -/
def scalarTag : Ty → Option String
  | .str => some tStr | .int => some tInt | .float => some tFloat
  | .bool => some tBool | .boolFix => some tBool | .null => some tNull
  | .date => some tTimestamp
  | _ => none

/-! ### hook DSL: exactly the public `UnknownNode` / `Node` methods -/

inductive RecOp where
  | requireScalar (typs : List NodeOps.TypArg)
  | requireMapping
  | requireSequence
  | requireAttribute (a : String) (ty : Option Ty)
  | requireAttributeValue (a : String) (v : PyScalar)
  | requireAttributeValueNot (a : String) (v : PyScalar)
  | raiseRecognition                   -- `raise yatiml.RecognitionError(...)`
  | raiseOther                         -- any other exception escaping the hook
  | opaque (f : Node → Bool)           -- an arbitrary user predicate (accept / RecognitionError)

inductive SavOp where
  | setAttribute (a : String) (v : PyScalar)
  | setIfMissing (a : String) (v : PyScalar)      -- `if not has_attribute(a): set_attribute(a, v)`
  | removeAttribute (a : String)
  | renameAttribute (a b : String)
  | dashesToUnders
  | undersToDashes
  | seqToMap (a k : String) (v : Option String) (strict : Bool)
  | mapToSeq (a k : String) (v : Option String)
  | indexToMap (a k : String) (v : Option String)
  | mapToIndex (a k : String) (v : Option String)
  | scalarToMapping (a : String)       -- `if is_scalar(): v = yaml_node; make_mapping(); set_attribute(a, v)`
  | replaceByScalar (v : PyScalar)     -- `node.yaml_node = ScalarNode(...)`: a node-rewriting savorizer
  | raiseSeasoning                     -- `raise yatiml.SeasoningError(...)`
  | raiseOther                         -- e.g. `raise ValueError`
  | opaque (f : Node → Option Node)    -- an arbitrary user function (`none` = raises)

structure Param where
  name : String
  ty : Ty                -- annotation, `Ty.any` when there is none
  annotated : Bool
  required : Bool

inductive ClassKind where
  | plain
  | enum (members : List String)
  | stringLike
  deriving DecidableEq, Repr

structure ClassDef where
  name : String
  bases : List String              -- `__bases__`, by name
  ancestors : List String          -- `__mro__[1:]`, by name (for `isinstance`)
  kind : ClassKind
  abstract : Bool                  -- `yatiml.util.is_abstract`
  params : List Param              -- `class_subobjects` of the effective `__init__`
  argNames : List String           -- `getfullargspec(__init__).args` without `self`
  extraTy : Option Ty              -- the annotation of `_yatiml_extra`, if it has one
  recognize : Option (List RecOp)  -- `_yatiml_recognize` in the class's own `__dict__`
  savorize : Option (List SavOp)   -- `_yatiml_savorize` in the class's own `__dict__`
  /-- does the user's `__init__` (or string-like constructor) raise for these arguments? -/
  initRaises : List (String × PyScalar) → Bool

structure Env where
  registered : List ClassDef       -- in registration order
  ext : Ext

namespace Env
def find (env : Env) (c : String) : Option ClassDef := env.registered.find? (fun d => d.name == c)
def isRegistered (env : Env) (c : String) : Bool := env.registered.any (fun d => d.name == c)
/-- `_registered_classes[tag]` for a tag `!Name` -/
def byTag (env : Env) (tag : String) : Option ClassDef :=
  if hasPrefix "!" tag then env.find (String.ofList (tag.toList.drop 1)) else none
/-- registered classes that list `c` among their direct bases, in registration order -/
def directSubclasses (env : Env) (c : String) : List ClassDef :=
  env.registered.filter (fun d => d.bases.contains c)
end Env

def ClassDef.takesExtra (d : ClassDef) : Bool := d.argNames.contains "_yatiml_extra"
def ClassDef.isEnum (d : ClassDef) : Bool := match d.kind with | .enum _ => true | _ => false
def ClassDef.isStringLike (d : ClassDef) : Bool := d.kind == .stringLike
def ClassDef.isPlain (d : ClassDef) : Bool := d.kind == .plain

/-! ### outcomes -/

/-- one leaf of a recognition error: the positions and key names its message cites -/
structure Leaf where
  marks : List Mark
  keys : List String
  deriving DecidableEq, Repr

inductive LoadErr where
  | recognition (leaves : List Leaf)     -- yatiml.RecognitionError
  | yaml (kind : String)                 -- a yaml.YAMLError subclass
  | other (pyType : String)              -- anything else escaping
  | fuel                                 -- the model ran out of fuel (never expected)
  deriving DecidableEq, Repr

end YatimlModel
