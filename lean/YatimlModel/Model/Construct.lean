import YatimlModel.Model.Process
/-!
Model of the construction phase: PyYAML's `SafeConstructor` on the processed
tree plus yatiml's `Constructor`, `EnumConstructor`, `UserStringConstructor`,
`PathConstructor` (as repaired: builtin exceptions from PyYAML's scalar
constructors are reported as RecognitionError).

The result carries the **log of user-constructor calls** (class, kwargs) in call
order, also when construction fails later (C04, C10).
-/
namespace YatimlModel
open NodeOps

mutual
inductive PyVal where
  | scalar (v : PyScalar)
  | date (repr : String)                 -- `datetime.date` / `datetime.datetime`, by `repr`
  | bytes (repr : String)
  | list (xs : PyVals)
  | dict (kvs : PyKVs)                   -- insertion-ordered
  | obj (cls : String) (kwargs : PyKVs)  -- a user object, identified with the kwargs `__init__` got
  | enumMember (cls : String) (name : String)
  | userStr (cls : String) (s : String)
  | path (s : String)
inductive PyVals where
  | nil
  | cons (x : PyVal) (xs : PyVals)
inductive PyKVs where
  | nil
  | cons (k v : PyVal) (rest : PyKVs)
end
deriving instance DecidableEq for PyVal
deriving instance DecidableEq for PyVals
deriving instance DecidableEq for PyKVs
deriving instance Repr for PyVal
instance : Inhabited PyVal := ⟨.scalar .none⟩

def PyVals.toList : PyVals → List PyVal
  | .nil => []
  | .cons x xs => x :: xs.toList
def PyVals.ofList : List PyVal → PyVals
  | [] => .nil
  | x :: xs => .cons x (PyVals.ofList xs)
def PyKVs.toList : PyKVs → List (PyVal × PyVal)
  | .nil => []
  | .cons k v r => (k, v) :: r.toList
def PyKVs.ofList : List (PyVal × PyVal) → PyKVs
  | [] => .nil
  | (k, v) :: r => .cons k v (PyKVs.ofList r)

/-- one user-constructor call -/
structure Call where
  cls : String
  kwargs : List (PyVal × PyVal)
  deriving DecidableEq, Repr

structure ConsOut where
  value : PyVal
  calls : List Call

/-- failure with the calls made so far -/
abbrev ConsRes := Except (LoadErr × List Call) ConsOut

/-! ### Python dict semantics for keys -/

/-- can the value be a dict key? (lists and dicts are unhashable; user objects by identity) -/
def hashable : PyVal → Bool
  | .list _ => false
  | .dict _ => false
  | _ => true

def numKey : PyVal → Option (Int × Bool)     -- (value, isNaN) for int / bool / integral float
  | .scalar (.int i) => some (i, false)
  | .scalar (.bool b) => some (if b then 1 else 0, false)
  | .scalar (.float _ (some i)) => some (i, false)
  | _ => none

/-- Python `==` on dict keys, as far as plain data can tell -/
def keyEq (a b : PyVal) : Bool :=
  match numKey a, numKey b with
  | some (i, _), some (j, _) => i == j
  | _, _ =>
    match a, b with
    -- PyYAML builds every NaN as the one object `SafeConstructor.nan_value`: equal as a key by identity
    | .scalar (.float r none), .scalar (.float r' none) => (r == "nan" && r' == "nan") || floatReprEq r r'
    | .userStr _ s, .scalar (.str s') => s == s'
    | .scalar (.str s), .userStr _ s' => s == s'
    | .userStr _ s, .userStr _ s' => s == s'
    | a, b => a == b

/-- `d[k] = v`: overwrite in place or append -/
def dictSet : List (PyVal × PyVal) → PyVal → PyVal → List (PyVal × PyVal)
  | [], k, v => [(k, v)]
  | (k', v') :: r, k, v => if keyEq k' k then (k', v) :: r else (k', v') :: dictSet r k v

def dictGet (d : List (PyVal × PyVal)) (k : String) : Option PyVal :=
  (d.find? (fun e => keyEq e.1 (.scalar (.str k)))).map (·.2)

/-! ### isinstance and `Constructor.__type_matches` -/

def isInstanceOf (env : Env) (v : PyVal) (c : String) : Bool :=
  let clsOf : Option String := match v with
    | .obj d _ => some d | .enumMember d _ => some d | .userStr d _ => some d | _ => none
  match clsOf with
  | some d => d == c || (match env.find d with | some dd => dd.ancestors.contains c | none => false)
  | none => false

/-- `isinstance(obj, key_type)` for the key type of a mapping annotation -/
def keyMatches (env : Env) (v : PyVal) : Ty → Bool
  | .str => (match v with | .scalar (.str _) => true | .userStr _ _ => true | _ => false)
  | .cls c => isInstanceOf env v c
  | _ => false

mutual
def typeMatches (env : Env) : PyVal → Ty → Bool
  | v, .union ms => typeMatchesAny env v ms
  | v, .seq _ item => (match v with | .list xs => typeMatchesAll env xs item | _ => false)
  | v, .map _ k val => (match v with | .dict kvs => typeMatchesKVs env kvs k val | _ => false)
  | v, .boolFix => (match v with | .scalar (.bool _) => true | _ => false)
  | _, .any => true
  | v, .str => (match v with | .scalar (.str _) => true | .userStr _ _ => true | _ => false)
  | v, .int => (match v with | .scalar (.int _) => true | .scalar (.bool _) => true | _ => false)
  | v, .float => (match v with | .scalar (.float _ _) => true | _ => false)
  | v, .bool => (match v with | .scalar (.bool _) => true | _ => false)
  | v, .null => (match v with | .scalar .none => true | _ => false)
  | v, .date => (match v with | .date _ => true | _ => false)
  | v, .path => (match v with | .path _ => true | _ => false)
  | v, .cls c => isInstanceOf env v c
def typeMatchesAny (env : Env) : PyVal → Tys → Bool
  | _, .nil => false
  | v, .cons t ts => typeMatches env v t || typeMatchesAny env v ts
def typeMatchesAll (env : Env) : PyVals → Ty → Bool
  | .nil, _ => true
  | .cons x xs, t => typeMatches env x t && typeMatchesAll env xs t
def typeMatchesKVs (env : Env) : PyKVs → Ty → Ty → Bool
  | .nil, _, _ => true
  | .cons k v r, kt, vt => keyMatches env k kt && typeMatches env v vt && typeMatchesKVs env r kt vt
end

/-! ### scalars with a core tag -/

def constructScalarCore (ext : Ext) (tag value : String) (m : Mark) : Except LoadErr PyVal :=
  if tag == tStr then .ok (.scalar (.str value))
  else if tag == tInt then
    (match constructInt value with | some i => .ok (.scalar (.int i)) | none => .error (errAt m))
  else if tag == tFloat then
    (match ext.yamlFloat value with | some r => .ok (.scalar (.float r.1 r.2)) | none => .error (errAt m))
  else if tag == tBool then
    (match constructBool value with | some b => .ok (.scalar (.bool b)) | none => .error (errAt m))
  else if tag == tNull then .ok (.scalar .none)
  else if tag == tTimestamp then
    (match ext.yamlTimestamp value with | some r => .ok (.date r) | none => .error (errAt m))
  else if tag == "tag:yaml.org,2002:binary" then
    (match ext.yamlBinary value with
     | some r => .ok (.bytes r)
     | none => .error (.yaml "ConstructorError"))    -- PyYAML reports bad base64 itself
  else .error (.yaml "ConstructorError")     -- no constructor for this tag

/-! ### merge keys (`SafeConstructor.flatten_mapping`) -/

def tMerge : String := "tag:yaml.org,2002:merge"
def tValue : String := "tag:yaml.org,2002:value"

/-- the mappings of a `<<: [m1, m2]` value, each flattened; `none` if an item is not a mapping -/
def mergeSeqItems (flat : List (Node × Node) → Option (List (Node × Node))) :
    List Node → Option (List (List (Node × Node)))
  | [] => some []
  | x :: xs =>
    match x with
    | .map _ qs _ =>
      (match flat qs.toList, mergeSeqItems flat xs with
       | some f, some r => some (f :: r)
       | _, _ => none)
    | _ => none

/-- the pairs a `<<` value contributes (`submerge.reverse()` for a sequence) -/
def mergedOf (flat : List (Node × Node) → Option (List (Node × Node))) : Node → Option (List (Node × Node))
  | .map _ qs _ => flat qs.toList
  | .seq _ xs _ => (mergeSeqItems flat xs.toList).map (fun l => l.reverse.flatten)
  | .scalar _ _ _ => none

/-- one pass of `flatten_mapping` over the pairs: (merged pairs, remaining pairs) -/
def flattenStep (flat : List (Node × Node) → Option (List (Node × Node))) :
    List (Node × Node) → Option (List (Node × Node) × List (Node × Node))
  | [] => some ([], [])
  | p :: ps =>
    match flattenStep flat ps with
    | none => none
    | some (merge, rest) =>
      if p.1.tag == tMerge then
        (match mergedOf flat p.2 with
         | some f => some (f ++ merge, rest)
         | none => none)
      else if p.1.tag == tValue then some (merge, (p.1.setTag tStr, p.2) :: rest)
      else some (merge, p :: rest)

/-- flatten the `<<` keys of a mapping's pairs; `none` = ConstructorError.  Merged mappings are
flattened recursively, hence the fuel. -/
def flattenPairs : Nat → List (Node × Node) → Option (List (Node × Node))
  | 0, _ => none
  | fuel + 1, ps => (flattenStep (flattenPairs fuel) ps).map (fun r => r.1 ++ r.2)

/-! ### the constructors -/

def kwargsOf (d : ClassDef) (mapping : List (PyVal × PyVal)) : List (PyVal × PyVal) :=
  if d.takesExtra then
    let isMain := fun (e : PyVal × PyVal) => match e.1 with
      | .scalar (.str k) => d.argNames.contains k && k != "_yatiml_extra"
      | _ => false
    mapping.filter isMain ++
      [(.scalar (.str "_yatiml_extra"), .dict (PyKVs.ofList (mapping.filter (fun e => !isMain e))))]
  else mapping

def scalarArgs (kw : List (PyVal × PyVal)) : List (String × PyScalar) :=
  kw.filterMap (fun e => match e.1, e.2 with
    | .scalar (.str k), .scalar v => some (k, v)
    | _, _ => none)

def firstKeyMark (ps : List (Node × Node)) (k : String) (dflt : Mark) : Mark :=
  match ps.find? (fun p => p.1.keyIs k) with
  | some p => p.1.mark
  | none => dflt
def firstValueMark (ps : List (Node × Node)) (k : String) (dflt : Mark) : Mark :=
  match ps.find? (fun p => p.1.keyIs k) with
  | some p => p.2.mark
  | none => dflt

/-- `__check_no_missing_attributes` then `__type_check_attributes` -/
def checkAttributes (env : Env) (d : ClassDef) (n : Node) (ps : List (Node × Node))
    (mapping : List (PyVal × PyVal)) : Option LoadErr :=
  let missing := d.params.findSome? (fun p =>
    match dictGet mapping p.name with
    | none => if p.required then some (errAt n.mark [p.name]) else none
    | some v => if typeMatches env v p.ty then none else some (errAt n.mark [p.name]))
  match missing with
  | some e => some e
  | none =>
    mapping.findSome? (fun e =>
      match e.1 with
      | .scalar (.str k) =>
        -- `self` is in `argspec.args`, so a key of that name passes this check (and fails later)
        if !d.argNames.contains k && k != "self" && !d.takesExtra then
          some (errAt (firstKeyMark ps k n.mark) [k])
        else
          match d.params.find? (fun p => p.name == k) with
          | some p =>
            if p.annotated && !typeMatches env e.2 p.ty then some (errAt (firstValueMark ps k n.mark) [k])
            else none
          | none =>
            -- a key spelt `_yatiml_extra` is checked against that parameter's annotation
            if k == "_yatiml_extra" && d.takesExtra then
              (match d.extraTy with
               | some T => if !typeMatches env e.2 T then some (errAt (firstValueMark ps k n.mark) [k]) else none
               | none => none)
            else none
      | _ => some (errAt n.mark))

def consItems (cons : Node → ConsRes) : List Node → List Call → Except (LoadErr × List Call) (List PyVal × List Call)
  | [], calls => .ok ([], calls)
  | x :: xs, calls =>
    match cons x with
    | .error (e, cs) => .error (e, calls ++ cs)
    | .ok o =>
      match consItems cons xs (calls ++ o.calls) with
      | .error e => .error e
      | .ok (ys, cs) => .ok (o.value :: ys, cs)

/-- `construct_mapping(node, deep=True)` on already flattened pairs -/
def consPairs (cons : Node → ConsRes) :
    List (Node × Node) → List (PyVal × PyVal) → List Call →
      Except (LoadErr × List Call) (List (PyVal × PyVal) × List Call)
  | [], acc, calls => .ok (acc, calls)
  | (k, v) :: rest, acc, calls =>
    match cons k with
    | .error (e, cs) => .error (e, calls ++ cs)
    | .ok ko =>
      if !hashable ko.value then .error (.yaml "ConstructorError", calls ++ ko.calls)
      else
        match cons v with
        | .error (e, cs) => .error (e, calls ++ ko.calls ++ cs)
        | .ok vo => consPairs cons rest (dictSet acc ko.value vo.value) (calls ++ ko.calls ++ vo.calls)

def construct (env : Env) (tbl : List Entry) : Nat → Node → ConsRes
  | 0, _ => .error (.fuel, [])
  | fuel + 1, n =>
    let cons := construct env tbl fuel
    let tag := n.tag
    match env.byTag tag with
    | some d =>
      -- a registered user class
      (match d.kind with
       | .enum members =>
         (match n with
          | .scalar _ v m => if members.contains v then .ok ⟨.enumMember d.name v, []⟩
                             else .error (errAt m, [])
          | _ => .error (errAt n.mark, []))
       | .stringLike =>
         (match n with
          | .scalar _ v m =>
            if d.initRaises [("", .str v)] then .error (errAt m, [])
            else .ok ⟨.userStr d.name v, [⟨d.name, [(.scalar (.str ""), .scalar (.str v))]⟩]⟩
          | _ => .error (errAt n.mark, []))
       | .plain =>
         (match n with
          | .map t ps m =>
            -- strip extra attributes; keys must be string scalars
            if !ps.toList.all (fun p => p.1.isScalarNode && p.1.tag == tStr) then .error (errAt m, [])
            else
              let known := d.argNames.filter (· != "_yatiml_extra")
              let ps1 := ps.toList.map (fun p =>
                match p.1 with
                | .scalar _ k _ => if known.contains k then p else (p.1, stripTags tbl p.2)
                | _ => p)
              let _ := t
              match flattenPairs (fuel + 1) ps1 with
              | none => .error (.yaml "ConstructorError", [])
              | some flat =>
                match consPairs cons flat [] [] with
                | .error e => .error e
                | .ok (mapping, calls) =>
                  match checkAttributes env d n ps1 mapping with
                  | some e => .error (e, calls)
                  | none =>
                    let kw := kwargsOf d mapping
                    let call : Call := ⟨d.name, kw⟩
                    -- `__init__(self=…)`: TypeError before the body runs, reported as RecognitionError
                    if (dictGet mapping "self").isSome then .error (errAt m, calls)
                    else if d.initRaises (scalarArgs kw) then .error (errAt m, calls ++ [call])
                    else .ok ⟨.obj d.name (PyKVs.ofList kw), calls ++ [call]⟩
          | _ => .error (errAt n.mark, [])))
    | none =>
      if tag == "!Path" then
        (match n with
         | .scalar _ v _ => .ok ⟨.path v, []⟩
         | _ => .error (errAt n.mark, []))
      else match n with
        | .scalar t v m =>
          (match constructScalarCore env.ext t v m with
           | .ok x => .ok ⟨x, []⟩
           | .error e => .error (e, []))
        | .seq t xs _ =>
          if t == tSeq then
            (match consItems cons xs.toList [] with
             | .error e => .error e
             | .ok (ys, calls) => .ok ⟨.list (PyVals.ofList ys), calls⟩)
          else .error (.yaml "ConstructorError", [])     -- !!set/!!omap/… on a sequence, unknown tags
        | .map t ps _ =>
          if t == tMap then
            match flattenPairs (fuel + 1) ps.toList with
            | none => .error (.yaml "ConstructorError", [])
            | some flat =>
              (match consPairs cons flat [] [] with
               | .error e => .error e
               | .ok (kvs, calls) => .ok ⟨.dict (PyKVs.ofList kvs), calls⟩)
          else .error (.yaml "ConstructorError", [])

end YatimlModel
