/-!
Line-protocol helpers for the driver: strings travel hex-encoded (UTF-8 bytes,
`-` for the empty string) so that any content survives a line-based protocol.
-/
namespace YatimlModel.Wire

def hexVal (c : Char) : Option Nat :=
  if '0' ≤ c ∧ c ≤ '9' then some (c.toNat - '0'.toNat)
  else if 'a' ≤ c ∧ c ≤ 'f' then some (c.toNat - 'a'.toNat + 10)
  else if 'A' ≤ c ∧ c ≤ 'F' then some (c.toNat - 'A'.toNat + 10)
  else none

def hexBytes : List Char → Option (List Nat)
  | [] => some []
  | a :: b :: rest => do
    let x ← hexVal a
    let y ← hexVal b
    let r ← hexBytes rest
    pure ((x * 16 + y) :: r)
  | _ => none

/-- UTF-8 decoding into code points; surrogate code points (Python's
`surrogatepass`) are passed through as numbers. -/
partial def utf8Decode : List Nat → List Nat
  | [] => []
  | b :: rest =>
    if b < 0x80 then b :: utf8Decode rest
    else if b < 0xE0 then
      match rest with
      | c :: r => ((b % 0x20) * 0x40 + c % 0x40) :: utf8Decode r
      | _ => []
    else if b < 0xF0 then
      match rest with
      | c :: d :: r => ((b % 0x10) * 0x1000 + (c % 0x40) * 0x40 + d % 0x40) :: utf8Decode r
      | _ => []
    else
      match rest with
      | c :: d :: e :: r =>
        ((b % 0x08) * 0x40000 + (c % 0x40) * 0x1000 + (d % 0x40) * 0x40 + e % 0x40) :: utf8Decode r
      | _ => []

def unhexCodes (s : String) : Option (List Nat) :=
  if s == "-" then some [] else (hexBytes s.toList).map utf8Decode

def codesToString (cs : List Nat) : String :=
  String.ofList (cs.map (fun c => Char.ofNat c))

def unhex (s : String) : Option String := (unhexCodes s).map codesToString

def hexDigit (n : Nat) : Char :=
  if n < 10 then Char.ofNat (n + 48) else Char.ofNat (n - 10 + 97)

def hex (s : String) : String :=
  if s.isEmpty then "-" else
  String.ofList (s.toUTF8.toList.flatMap (fun b => [hexDigit (b.toNat / 16), hexDigit (b.toNat % 16)]))

end YatimlModel.Wire
