/-!
Line-protocol helpers for the driver: strings travel hex-encoded (UTF-8 bytes,
`-` for the empty string) so that any content survives a line-based protocol.
-/
namespace YatimlModel.Wire

def hexVal (c : Char) : Option Nat :=
  if '0' ≤ c ∧ c ≤ '9' then some (c.toNat - '0'.toNat)
  else if 'a' ≤ c ∧ c ≤ 'f' then some (c.toNat - 'a'.toNat + 10)
  else if 'A' ≤ c ∧ c ≤ 'F' then some (c.toNat - 'A'.toNat + 10)
  else none

def hexBytes : List Char → Option (List Nat)
  | [] => some []
  | a :: b :: rest => do
    let x ← hexVal a
    let y ← hexVal b
    let r ← hexBytes rest
    pure ((x * 16 + y) :: r)
  | _ => none

/-- UTF-8 decoding into code points; surrogate code points (Python's
`surrogatepass`) are passed through as numbers. -/
partial def utf8Decode : List Nat → List Nat
  | [] => []
  | b :: rest =>
    if b < 0x80 then b :: utf8Decode rest
    else if b < 0xE0 then
      match rest with
      | c :: r => ((b % 0x20) * 0x40 + c % 0x40) :: utf8Decode r
      | _ => []
    else if b < 0xF0 then
      match rest with
      | c :: d :: r => ((b % 0x10) * 0x1000 + (c % 0x40) * 0x40 + d % 0x40) :: utf8Decode r
      | _ => []
    else
      match rest with
      | c :: d :: e :: r =>
        ((b % 0x08) * 0x40000 + (c % 0x40) * 0x1000 + (d % 0x40) * 0x40 + e % 0x40) :: utf8Decode r
      | _ => []

def unhexCodes (s : String) : Option (List Nat) :=
  if s == "-" then some [] else (hexBytes s.toList).map utf8Decode

def codesToString (cs : List Nat) : String :=
  String.ofList (cs.map (fun c => Char.ofNat c))

def unhex (s : String) : Option String := (unhexCodes s).map codesToString

def hexDigit (n : Nat) : Char :=
  if n < 10 then Char.ofNat (n + 48) else Char.ofNat (n - 10 + 97)

def hex (s : String) : String :=
  if s.isEmpty then "-" else
  String.ofList (s.toUTF8.toList.flatMap (fun b => [hexDigit (b.toNat / 16), hexDigit (b.toNat % 16)]))



/-- S-expressions of the line protocol: tokens are separated by single spaces,
parentheses are tokens of their own, strings travel hex-encoded. -/
inductive Sexp
  | atom (s : String)
  | list (xs : List Sexp)
  deriving Repr, Inhabited

partial def parseMany : List String → List Sexp → Option (List Sexp × List String)
  | [], acc => some (acc.reverse, [])
  | ")" :: rest, acc => some (acc.reverse, ")" :: rest)
  | "(" :: rest, acc =>
    match parseMany rest [] with
    | some (xs, ")" :: rest') => parseMany rest' (Sexp.list xs :: acc)
    | _ => none
  | "" :: rest, acc => parseMany rest acc
  | tok :: rest, acc => parseMany rest (Sexp.atom tok :: acc)

def parseLine (line : String) : Option (List Sexp) :=
  match parseMany (line.splitOn " ") [] with
  | some (xs, []) => some xs
  | _ => none

def Sexp.str? : Sexp → Option String
  | .atom s => unhex s
  | _ => none
def Sexp.codes? : Sexp → Option (List Nat)
  | .atom s => unhexCodes s
  | _ => none
def Sexp.nat? : Sexp → Option Nat
  | .atom s => s.toNat?
  | _ => none
def Sexp.bool? : Sexp → Option Bool
  | .atom "1" => some true
  | .atom "0" => some false
  | _ => none

def hexCodes (cs : List Nat) : String := hex (codesToString cs)

end YatimlModel.Wire
