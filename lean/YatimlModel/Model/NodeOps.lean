import YatimlModel.Model.Scalars
/-!
Model of `yatiml.helpers.Node`: the accessors and the structural seasoning
transforms, as pure functions on the wrapped node.  A method that mutates
`self.yaml_node` becomes a function returning the new node; a method that may
raise returns `Except OpErr`.  The methods documented "use only if
`is_mapping()`" are modelled on mapping nodes; on other nodes they return
`OpErr.misuse` (the Python code raises an unspecified builtin exception there).
-/
namespace YatimlModel
namespace NodeOps

inductive OpErr
  | seasoning      -- yatiml.SeasoningError
  | value          -- ValueError
  | type_          -- TypeError
  | runtime        -- RuntimeError
  | scalarCtor     -- whatever PyYAML's scalar constructor raises (ValueError, KeyError, IndexError…)
  | misuse         -- precondition of the method violated (not a mapping/sequence)
  deriving DecidableEq, Repr

/-- the `typ` argument of `is_scalar` / `has_attribute_type` -/
inductive TypArg
  | str | int | float | bool | none_ | list | dict | anyScalar | invalid
  deriving DecidableEq, Repr

def scalarTagOf : TypArg → Option String
  | .str => some tStr | .int => some tInt | .float => some tFloat | .bool => some tBool
  | .none_ => some tNull | _ => none

/-- `Node.is_scalar(typ)` -/
def isScalar (n : Node) (typ : TypArg) : Except OpErr Bool :=
  match n with
  | .scalar tag _ _ =>
    match typ with
    | .anyScalar => .ok true
    | t => match scalarTagOf t with
      | some tg => .ok (tag == tg)
      | none => .error .value           -- 'Invalid scalar type passed to is_scalar()'
  | _ => .ok false

def isMapping (n : Node) : Bool := n.isMapNode
def isSequence (n : Node) : Bool := n.isSeqNode

/-- `Node.get_value()`: what a load would construct for this scalar -/
def getValue (ext : Ext) (n : Node) : Except OpErr PyScalar :=
  match n with
  | .scalar tag v _ =>
    if tag == tStr then .ok (.str v)
    else if tag == tInt then (match constructInt v with | some i => .ok (.int i) | none => .error .scalarCtor)
    else if tag == tFloat then (match ext.yamlFloat v with | some r => .ok (.float r.1 r.2) | none => .error .scalarCtor)
    else if tag == tBool then (match constructBool v with | some b => .ok (.bool b) | none => .error .scalarCtor)
    else if tag == tNull then .ok .none
    else .error .runtime
  | .seq tag _ _ => if tag == tStr || tag == tInt || tag == tFloat || tag == tBool then .error .misuse
                    else if tag == tNull then .ok .none else .error .runtime
  | .map tag _ _ => if tag == tStr || tag == tInt || tag == tFloat || tag == tBool then .error .misuse
                    else if tag == tNull then .ok .none else .error .runtime

def tagOfScalar : PyScalar → String
  | .str _ => tStr | .int _ => tInt | .float _ _ => tFloat | .bool _ => tBool | .none => tNull

/-- `str(value)` as written into the node (`true`/`false` for bools) -/
def textOfScalar : PyScalar → String
  | .str s => s
  | .int i => toString i
  | .float r _ => r
  | .bool b => if b then "true" else "false"
  | .none => "None"

/-- `Node.set_value(v)`: a new scalar node; a non-core (class) tag is kept -/
def setValue (n : Node) (v : PyScalar) : Node :=
  let tag := if hasPrefix corePrefix n.tag then tagOfScalar v else n.tag
  .scalar tag (textOfScalar v) n.mark

/-- `Node.make_mapping()` -/
def makeMapping (_ : Node) : Node := .map tMap .nil Mark.generated

/-! ### mapping accessors (on the pair list) -/

def hasKey (ps : List (Node × Node)) (a : String) : Bool := ps.any (fun p => p.1.keyIs a)

def hasAttribute (n : Node) (a : String) : Except OpErr Bool :=
  match n with
  | .map _ ps _ => .ok (hasKey ps.toList a)
  | .seq _ xs _ => if xs.toList.isEmpty then .ok false else .error .misuse
  | .scalar _ v _ => if v.isEmpty then .ok false else .error .misuse

def valuesOf (ps : List (Node × Node)) (a : String) : List Node :=
  (ps.filter (fun p => p.1.keyIs a)).map (·.2)

/-- `Node.get_attribute(a)`: exactly one match, else SeasoningError -/
def getAttribute (n : Node) (a : String) : Except OpErr Node :=
  match n with
  | .map _ ps _ =>
    match valuesOf ps.toList a with
    | [v] => .ok v
    | _ => .error .seasoning
  | _ => .error .misuse

/-- the value nodes `set_attribute` builds for Python scalars -/
def nodeOfScalar (v : PyScalar) : Node :=
  match v with
  | .none => .scalar tNull "" Mark.generated
  | v => .scalar (tagOfScalar v) (textOfScalar v) Mark.generated

def setFirst (ps : List (Node × Node)) (a : String) (v : Node) : List (Node × Node) :=
  match ps with
  | [] => [(Node.scalar tStr a Mark.generated, v)]
  | (k, x) :: rest => if k.keyIs a then (k, v) :: rest else (k, x) :: setFirst rest a v

/-- `Node.set_attribute(a, node)` -/
def setAttribute (n : Node) (a : String) (v : Node) : Except OpErr Node :=
  match n with
  | .map t ps m => .ok (.map t (Pairs.ofList (setFirst ps.toList a v)) m)
  | _ => .error .misuse

def removeFirst (ps : List (Node × Node)) (a : String) : List (Node × Node) :=
  match ps with
  | [] => []
  | (k, x) :: rest => if k.keyIs a then rest else (k, x) :: removeFirst rest a

/-- `Node.remove_attribute(a)` -/
def removeAttribute (n : Node) (a : String) : Except OpErr Node :=
  match n with
  | .map t ps m => .ok (.map t (Pairs.ofList (removeFirst ps.toList a)) m)
  | _ => .error .misuse

def renameKey (k : Node) (b : String) : Node :=
  match k with
  | .scalar t _ m => .scalar t b m
  | k => k

def renameFirst (ps : List (Node × Node)) (a b : String) : List (Node × Node) :=
  match ps with
  | [] => []
  | (k, x) :: rest => if k.keyIs a then (renameKey k b, x) :: rest else (k, x) :: renameFirst rest a b

/-- `Node.rename_attribute(a, b)` -/
def renameAttribute (n : Node) (a b : String) : Except OpErr Node :=
  match n with
  | .map t ps m => .ok (.map t (Pairs.ofList (renameFirst ps.toList a b)) m)
  | _ => .error .misuse

/-- `Node.has_attribute_type(a, typ)` -/
def hasAttributeType (n : Node) (a : String) (typ : TypArg) : Except OpErr Bool :=
  match hasAttribute n a with
  | .error e => .error e
  | .ok false => .ok false
  | .ok true =>
    match getAttribute n a with
    | .error e => .error e
    | .ok v =>
      match typ with
      | .list => .ok v.isSeqNode
      | .dict => .ok v.isMapNode
      | t => match scalarTagOf t with
        | some tg => .ok (v.tag == tg)
        | none => .error .value

def replaceChar (a b : Char) (s : String) : String :=
  String.ofList (s.toList.map (fun c => if c == a then b else c))

def mapKeys (f : String → String) (ps : List (Node × Node)) : List (Node × Node) :=
  ps.map (fun p => (match p.1 with
    | .scalar t v m => (Node.scalar t (f v) m, p.2)
    | k => (k, p.2)))

/-- `unders_to_dashes_in_keys` / `dashes_to_unders_in_keys`; a non-scalar key makes
`key_node.value.replace` raise AttributeError -/
def mapKeysNode (f : String → String) (n : Node) : Except OpErr Node :=
  match n with
  | .map t ps m =>
    if ps.toList.all (fun p => p.1.isScalarNode) then .ok (.map t (Pairs.ofList (mapKeys f ps.toList)) m)
    else .error .misuse
  | _ => .error .misuse

def undersToDashes (n : Node) : Except OpErr Node := mapKeysNode (replaceChar '_' '-') n
def dashesToUnders (n : Node) : Except OpErr Node := mapKeysNode (replaceChar '-' '_') n

/-! ### `remove_attributes_with_default_values` -/

/-- a default value of a constructor parameter, as far as the comparison can see it -/
inductive PyDefault
  | scalar (v : PyScalar)
  | emptyList                   -- `[]` (the documented `_yatiml_defaults = {'my_list': []}` idiom)
  | other                       -- any other object: never equal to a node's value
  deriving DecidableEq, Repr

/-- does the node's constructed value equal the default? -/
def matchesDefault (ext : Ext) (v : Node) (d : PyDefault) : Bool :=
  match v with
  | .scalar tag s _ =>
    if tag == tNull then d == .scalar .none
    else if tag == tInt then
      (match constructInt s, d with
       | some i, .scalar (.int j) => i == j
       | some i, .scalar (.float _ a) => a == some i          -- Python: `1 == 1.0`
       | _, _ => false)
    else if tag == tFloat then
      (match ext.yamlFloat s, d with
       | some r, .scalar (.float r' _) => floatReprEq r.1 r'
       | some r, .scalar (.int j) => r.2 == some j
       | _, _ => false)
    else if tag == tBool then
      (match constructBool s, d with
       | some b, .scalar (.bool b') => b == b'
       | _, _ => false)
    else d == .scalar (.str s)               -- other tags: `value_node.value == default`
  | .seq _ xs _ => xs.toList.isEmpty && d == .emptyList   -- `[] == default`
  | .map _ ps _ => ps.toList.isEmpty && d == .emptyList

/-- `introspection.defaulted_attributes(cls)`: the parameters that have a default, each with the
value `_yatiml_defaults` gives for it if it names it, else its Python default.  Names in
`_yatiml_defaults` that are not defaulted parameters are ignored. -/
def defaultedAttributes (sig : List (String × Option PyDefault)) (user : List (String × PyDefault)) :
    List (String × PyDefault) :=
  sig.filterMap (fun e =>
    match e.2 with
    | none => none
    | some d => some (e.1, match user.lookup e.1 with | some u => u | none => d))

def removeDefaults (ext : Ext) (n : Node) (defaults : List (String × PyDefault)) : Except OpErr Node :=
  match n with
  | .map t ps m =>
    .ok (.map t (Pairs.ofList (ps.toList.filter (fun p =>
      match p.1 with
      | .scalar _ k _ =>
        (match defaults.lookup k with
         | some d => !matchesDefault ext p.2 d
         | none => true)
      | _ => true))) m)
  | _ => .error .misuse

end NodeOps
end YatimlModel
