import YatimlModel.Model.Construct
/-!
Model of the dumping side up to the node tree: PyYAML's `SafeRepresenter` for
the built-in types and yatiml's `Representer`, `EnumRepresenter`,
`UserStringRepresenter`, `PathRepresenter`, including `_yatiml_sweeten`.

Values to dump are `PyVal`s: a user object `obj cls attrs` carries its
attribute values in `__init__` parameter order (with `_yatiml_extra` as a dict),
or — for a class that defines `_yatiml_attributes` — what that method returned.
Object identity (the same object referenced twice) is not part of `PyVal`; the
anchors PyYAML then writes are covered on the real code only (C05).
-/
namespace YatimlModel
open NodeOps

structure DumpClass where
  name : String
  bases : List String                  -- `__bases__` by name
  kind : ClassKind
  /-- `_yatiml_sweeten` in the class's own body (plain classes: looked up with `in __dict__`) -/
  sweetenOwn : Option (List SavOp)
  /-- what `hasattr`/`getattr` finds along the MRO (enum and string-like representers use that) -/
  sweetenMro : Option (String × List SavOp)

structure DumpEnv where
  registered : List DumpClass
  /-- names of the other classes that have a representer (`yaml_representers` keys), e.g. `str`, `dict` -/
  builtinRepresenters : List String

def DumpEnv.find (env : DumpEnv) (c : String) : Option DumpClass := env.registered.find? (fun d => d.name == c)
def DumpEnv.hasRepresenter (env : DumpEnv) (c : String) : Bool :=
  (env.find c).isSome || env.builtinRepresenters.contains c

inductive DumpErr
  | noRepresenter (what : String)     -- yaml.representer.RepresenterError
  | sweeten                           -- a sweeten function raised
  | other (what : String)
  | fuel
  deriving DecidableEq, Repr

/-- `SafeRepresenter.represent_float`, from `repr(x)` -/
def floatText (repr : String) : String :=
  if repr == "nan" then ".nan"
  else if repr == "inf" then ".inf"
  else if repr == "-inf" then "-.inf"
  else
    let v := asciiLowerStr repr
    if !v.toList.contains '.' && v.toList.contains 'e' then
      -- '1e+16' -> '1.0e+16'
      let cs := v.toList
      String.ofList (cs.takeWhile (· != 'e') ++ ".0".toList ++ cs.dropWhile (· != 'e'))
    else v

def gen : Mark := Mark.generated

def representScalar : PyScalar → Node
  | .none => .scalar tNull "null" gen
  | .bool b => .scalar tBool (if b then "true" else "false") gen
  | .int i => .scalar tInt (toString i) gen
  | .float r _ => .scalar tFloat (floatText r) gen
  | .str s => .scalar tStr s gen

/-- `Representer.__sweeten`: registered (= having a representer) direct bases first, then the class's own
hook; returns the node and the trace of hooks called -/
def sweeten (env : DumpEnv) : Nat → Node → DumpClass → Except DumpErr (Node × List String)
  | 0, _, _ => .error .fuel
  | fuel + 1, n, d =>
    let bases := d.bases.filterMap (fun b => env.find b)
    let afterBases := bases.foldl (fun (acc : Except DumpErr (Node × List String)) b =>
      match acc with
      | .error e => .error e
      | .ok (n', tr) =>
        match sweeten env fuel n' b with
        | .error e => .error e
        | .ok (n'', tr') => .ok (n'', tr ++ tr')) (.ok (n, []))
    match afterBases with
    | .error e => .error e
    | .ok (n', tr) =>
      match d.sweetenOwn with
      | none => .ok (n', tr)
      | some prog =>
        match runSavProg n' prog with
        | .error _ => .error .sweeten
        | .ok n'' => .ok (n'', tr ++ [d.name])

structure RepOut where
  node : Node
  trace : List String

def repItems (rep : PyVal → Except DumpErr RepOut) : List PyVal → Except DumpErr (List Node × List String)
  | [] => .ok ([], [])
  | x :: xs =>
    match rep x with
    | .error e => .error e
    | .ok o =>
      match repItems rep xs with
      | .error e => .error e
      | .ok (ns, tr) => .ok (o.node :: ns, o.trace ++ tr)

def repPairs (rep : PyVal → Except DumpErr RepOut) :
    List (PyVal × PyVal) → Except DumpErr (List (Node × Node) × List String)
  | [] => .ok ([], [])
  | (k, v) :: r =>
    match rep k with
    | .error e => .error e
    | .ok ko =>
      match rep v with
      | .error e => .error e
      | .ok vo =>
        match repPairs rep r with
        | .error e => .error e
        | .ok (ps, tr) => .ok ((ko.node, vo.node) :: ps, ko.trace ++ vo.trace ++ tr)

/-- the attribute list of a user object: parameters in `__init__` order, extras appended -/
def attributesOf (kw : List (PyVal × PyVal)) : List (PyVal × PyVal) :=
  let main := kw.filter (fun e => e.1 != .scalar (.str "_yatiml_extra"))
  let extra := kw.filterMap (fun e =>
    if e.1 == .scalar (.str "_yatiml_extra") then
      (match e.2 with | .dict kvs => some kvs.toList | _ => none)
    else none)
  main ++ extra.flatten

def represent (env : DumpEnv) : Nat → PyVal → Except DumpErr RepOut
  | 0, _ => .error .fuel
  | fuel + 1, v =>
    let rep := represent env fuel
    match v with
    | .scalar s => .ok ⟨representScalar s, []⟩
    | .date r => .ok ⟨.scalar tTimestamp r gen, []⟩          -- `r` is the ISO text here
    | .bytes r => .ok ⟨.scalar "tag:yaml.org,2002:binary" r gen, []⟩
    | .path s => .ok ⟨.scalar tStr s gen, []⟩
    | .list xs =>
      (match repItems rep xs.toList with
       | .error e => .error e
       | .ok (ns, tr) => .ok ⟨.seq tSeq (Nodes.ofList ns) gen, tr⟩)
    | .dict kvs =>
      (match repPairs rep kvs.toList with
       | .error e => .error e
       | .ok (ps, tr) => .ok ⟨.map tMap (Pairs.ofList ps) gen, tr⟩)
    | .enumMember c name =>
      (match env.find c with
       | none => .error (.noRepresenter c)
       | some d =>
         let n := Node.scalar tStr name gen
         match d.sweetenMro with
         | none => .ok ⟨n, []⟩
         | some (owner, prog) =>
           match runSavProg n prog with
           | .error _ => .error .sweeten
           | .ok n' => .ok ⟨n', [owner]⟩)
    | .userStr c s =>
      (match env.find c with
       | none => .error (.noRepresenter c)
       | some d =>
         let n := Node.scalar tStr s gen
         match d.sweetenMro with
         | none => .ok ⟨n, []⟩
         | some (owner, prog) =>
           match runSavProg n prog with
           | .error _ => .error .sweeten
           | .ok n' => .ok ⟨n', [owner]⟩)
    | .obj c kw =>
      (match env.find c with
       | none => .error (.noRepresenter c)
       | some d =>
         match repPairs rep (attributesOf kw.toList) with
         | .error e => .error e
         | .ok (ps, tr) =>
           match sweeten env (fuel + 1) (.map tMap (Pairs.ofList ps) gen) d with
           | .error e => .error e
           | .ok (n, tr') => .ok ⟨n, tr ++ tr'⟩)

end YatimlModel
