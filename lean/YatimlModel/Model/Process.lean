import YatimlModel.Model.Recognize
import YatimlModel.Model.Resolver
/-!
Model of `Loader.__process_node`, `Loader.__savorize`, `Loader.__type_to_tag`
and `util.strip_tags` (as repaired: see DESIGN.md section 9).
-/
namespace YatimlModel
open NodeOps

/-! ### strip_tags -/

mutual
def stripTags (tbl : List Entry) : Node → Node
  | .scalar t v m =>
    if hasPrefix corePrefix t then .scalar t v m else .scalar (resolveStr tbl v) v m
  | .seq _ xs m => .seq tSeq (stripTagsL tbl xs) m
  | .map _ ps m => .map tMap (stripTagsP tbl ps) m
def stripTagsL (tbl : List Entry) : Nodes → Nodes
  | .nil => .nil
  | .cons x xs => .cons (stripTags tbl x) (stripTagsL tbl xs)
def stripTagsP (tbl : List Entry) : Pairs → Pairs
  | .nil => .nil
  | .cons k v r => .cons (stripTags tbl k) (stripTags tbl v) (stripTagsP tbl r)
end

/-! ### savorize -/

inductive SavErr | seasoning | other
  deriving DecidableEq, Repr

def liftOp (r : Except OpErr Node) : Except SavErr Node :=
  match r with
  | .ok n => .ok n
  | .error .seasoning => .error .seasoning
  | .error _ => .error .other

def runSavOp (n : Node) : SavOp → Except SavErr Node
  | .setAttribute a v => liftOp (setAttribute n a (nodeOfScalar v))
  | .setIfMissing a v =>
    (match hasAttribute n a with
     | .ok true => .ok n
     | .ok false => liftOp (setAttribute n a (nodeOfScalar v))
     | .error _ => .error .other)
  | .removeAttribute a => liftOp (removeAttribute n a)
  | .renameAttribute a b => liftOp (renameAttribute n a b)
  | .dashesToUnders => liftOp (dashesToUnders n)
  | .undersToDashes => liftOp (undersToDashes n)
  | .seqToMap a k v s => liftOp (seqAttributeToMap n a k v s)
  | .mapToSeq a k v => liftOp (mapAttributeToSeq n a k v)
  | .indexToMap a k v => liftOp (indexAttributeToMap n a k v)
  | .mapToIndex a k v => liftOp (mapAttributeToIndex n a k v)
  | .scalarToMapping a =>
    if n.isScalarNode then liftOp (setAttribute (makeMapping n) a n) else .ok n
  | .replaceByScalar v => .ok (.scalar (tagOfScalar v) (textOfScalar v) n.mark)
  | .raiseSeasoning => .error .seasoning
  | .raiseOther => .error .other
  | .opaque f => match f n with | some n' => .ok n' | none => .error .other

def runSavProg : Node → List SavOp → Except SavErr Node
  | n, [] => .ok n
  | n, op :: ops =>
    match runSavOp n op with
    | .error e => .error e
    | .ok n' => runSavProg n' ops

/-- `Loader.__savorize`: registered direct bases first (recursively), then the class itself,
each only if it defines `_yatiml_savorize` in its own body.  Returns the hook trace too. -/
def savorize (env : Env) : Nat → Node → ClassDef → Except SavErr (Node × List String)
  | 0, _, _ => .error .other
  | fuel + 1, n, d =>
    let bases := d.bases.filterMap (fun b => env.find b)
    let afterBases := bases.foldl (fun (acc : Except SavErr (Node × List String)) b =>
      match acc with
      | .error e => .error e
      | .ok (n', tr) =>
        match savorize env fuel n' b with
        | .error e => .error e
        | .ok (n'', tr') => .ok (n'', tr ++ tr')) (.ok (n, []))
    match afterBases with
    | .error e => .error e
    | .ok (n', tr) =>
      match d.savorize with
      | none => .ok (n', tr)
      | some prog =>
        match runSavProg n' prog with
        | .error e => .error e
        | .ok n'' => .ok (n'', tr ++ [d.name])

/-! ### type_to_tag -/

def typeToTag (env : Env) : Ty → Option String
  | .seq _ _ => some tSeq
  | .map _ _ _ => some tMap
  | .cls c => if env.isRegistered c then some ("!" ++ c) else none
  | .path => some "!Path"
  | .union _ => none
  | .any => none
  | T => scalarTag T

/-! ### process_node -/

structure ProcOut where
  node : Node
  trace : List String        -- savorize hooks called, in order (C10)

abbrev ProcRes := Except LoadErr ProcOut

def errAt (m : Mark) (keys : List String := []) : LoadErr := .recognition [⟨[m], keys⟩]

def fatalToErr (n : Node) : Fatal → LoadErr
  | .seasoning ms => .recognition [⟨n.mark :: ms, []⟩]
  | .hook => .other "hook"
  | .unregistered => .recognition [⟨[], []⟩]
  | .dictKey => .other "RuntimeError"
  | .fuel => .fuel

def procItems (proc : Node → Ty → ProcRes) (T : Ty) : List Node → Except LoadErr (List Node × List String)
  | [] => .ok ([], [])
  | x :: xs =>
    match proc x T with
    | .error e => .error e
    | .ok o =>
      match procItems proc T xs with
      | .error e => .error e
      | .ok (ys, tr) => .ok (o.node :: ys, o.trace ++ tr)

def procPairs (proc : Node → Ty → ProcRes) (K V : Ty) :
    List (Node × Node) → Except LoadErr (List (Node × Node) × List String)
  | [] => .ok ([], [])
  | (k, v) :: rest =>
    match proc k K with
    | .error e => .error e
    | .ok ko =>
      match proc v V with
      | .error e => .error e
      | .ok vo =>
        match procPairs proc K V rest with
        | .error e => .error e
        | .ok (ps, tr) => .ok ((ko.node, vo.node) :: ps, ko.trace ++ vo.trace ++ tr)

/-- the attribute loop of `__process_node` for a plain class -/
def procAttrs (proc : Node → Ty → ProcRes) : Node → List Param → Except LoadErr (Node × List String)
  | n, [] => .ok (n, [])
  | n, p :: rest =>
    match hasAttribute n p.name with
    | .error _ => .error (errAt n.mark)
    | .ok false => procAttrs proc n rest
    | .ok true =>
      match getAttribute n p.name with
      | .error _ => .error (errAt n.mark)          -- repeated key: SeasoningError -> RecognitionError
      | .ok sub =>
        match proc sub p.ty with
        | .error e => .error e
        | .ok o =>
          match setAttribute n p.name o.node with
          | .error _ => .error (errAt n.mark)
          | .ok n' =>
            match procAttrs proc n' rest with
            | .error e => .error e
            | .ok (n'', tr) => .ok (n'', o.trace ++ tr)

/-- an enum member spelt like a boolean is read as a string, not as a bool -/
def enumRetag (d : ClassDef) (n : Node) : Node :=
  if d.isEnum && n.tag == tBool then n.setTag tStr else n

/-- the savorize step of `__process_node` for the recognised type `R` -/
def savStep (env : Env) (fuel : Nat) (n : Node) (R : Ty) : Except LoadErr (Node × List String) :=
  match R with
  | .cls c =>
    (match env.find c with
     | none => .ok (n, [])
     | some d =>
       match savorize env fuel (enumRetag d n) d with
       | .ok r => .ok r
       | .error _ => .error (errAt (enumRetag d n).mark))
  | _ => .ok (n, [])

/-- the recursion step of `__process_node`: items, key/value pairs or class attributes -/
def subStep (env : Env) (proc : Node → Ty → ProcRes) (R : Ty) (n2 : Node) :
    Except LoadErr (Node × List String) :=
  match R with
  | .seq _ item =>
    (match n2 with
     | .seq t xs m =>
       if t != tSeq then .error (errAt n2.mark)
       else match procItems proc item xs.toList with
         | .error e => .error e
         | .ok (ys, tr') => .ok (.seq t (Nodes.ofList ys) m, tr')
     | _ => .error (errAt n2.mark))
  | .map _ K V =>
    (match n2 with
     | .map t ps m =>
       if t != tMap then .error (errAt n2.mark)
       else match procPairs proc K V ps.toList with
         | .error e => .error e
         | .ok (qs, tr') => .ok (.map t (Pairs.ofList qs) m, tr')
     | _ => .error (errAt n2.mark))
  | .cls c =>
    (match env.find c with
     | some d => if d.isPlain && n2.isMapNode then procAttrs proc n2 d.params else .ok (n2, [])
     | none => .ok (n2, []))
  | _ => .ok (n2, [])

/-- the final retagging of `__process_node` -/
def tagStep (env : Env) (tbl : List Entry) (R : Ty) (n3 : Node) (trace : List String) : ProcRes :=
  if R == .any then .ok ⟨stripTags tbl n3, trace⟩
  else match typeToTag env R with
    | some tag => .ok ⟨n3.setTag tag, trace⟩
    | none => .error (.other "RuntimeError")

def processNode (env : Env) (tbl : List Entry) : Nat → Node → Ty → ProcRes
  | 0, _, _ => .error .fuel
  | fuel + 1, n, T =>
    match recognize env (fuel + 1) n T with
    | .error f => .error (fatalToErr n f)
    | .ok (ts, leaves) =>
      match ts with
      | [R] =>
        match savStep env (fuel + 1) n R with
        | .error e => .error e
        | .ok (n2, tr) =>
          match subStep env (processNode env tbl fuel) R n2 with
          | .error e => .error e
          | .ok (n3, tr') => tagStep env tbl R n3 (tr ++ tr')
      | _ => .error (.recognition leaves)

end YatimlModel
