/-!
Model of `yatiml.dumper.Dumper.emit_json`: a push-down machine over PyYAML
events.  `emit` mirrors the method branch by branch; `run` feeds it an event
list; `evT` is the event sequence PyYAML's serializer produces for a tree-shaped
node (no `AliasEvent`).  `rT` is a stack-free recursive renderer used as the
specification the machine is proved to refine (Props/C07).
-/
namespace YatimlModel.Json

/-- `JsonDumperState` -/
inductive JS | none | seq | seqFirst | mapKey | mapKeyFirst | mapValue
  deriving DecidableEq, Repr

/-- how `emit_json` distinguishes scalar events: by tag -/
inductive SK | str | null | bool | timestamp | other
  deriving DecidableEq, Repr

inductive Ev
  | seqStart | seqEnd | mapStart | mapEnd
  | scalar (k : SK) (value : String)
  | docEnd
  | other            -- StreamStart/DocumentStart/StreamEnd: fall into the final `else` branch
  | alias            -- raises RuntimeError
  deriving Repr

/-- what is written to the stream -/
inductive Chunk
  | punct (s : String)          -- `[ ] { } ,` and the key/value separator
  | scal (text : String)        -- a rendered scalar
  | nl (indent : Nat)           -- `best_line_break` followed by `indent` spaces
  deriving DecidableEq, Repr

/-- the text functions `emit_json` delegates to -/
structure TextFns where
  dumps : String → String       -- `json.dumps(value, ensure_ascii=not allow_unicode)`
  lower : String → String       -- `str.lower`

structure Cfg where
  indented : Bool               -- `_requested_indent is not None`
  best : Nat                    -- `best_indent`
  kvsep : String                -- `_kv_sep`
  fns : TextFns

structure St where
  stack : List JS               -- head = top of `_json_state`
  ind : Nat                     -- `_cur_indent`

def scalarText (f : TextFns) : SK → String → String
  | .str, v => f.dumps v
  | .timestamp, v => f.dumps v
  | .null, _ => "null"
  | .bool, v => f.lower v
  | .other, v => v

/-- `_do_endline` -/
def endl (cfg : Cfg) (ind : Nat) : List Chunk := if cfg.indented then [Chunk.nl ind] else []

def sepOf (cfg : Cfg) (ind : Nat) : JS → List Chunk
  | .seq => Chunk.punct "," :: endl cfg ind
  | .mapKey => Chunk.punct "," :: endl cfg ind
  | .mapValue => [Chunk.punct cfg.kvsep]
  | _ => []

def nextOf : JS → JS
  | .seqFirst => .seq | .mapKeyFirst => .mapValue | .mapKey => .mapValue | .mapValue => .mapKey
  | s => s

/-- one call of `emit_json`; `none` = the call raises -/
def emit (cfg : Cfg) (st : St) : Ev → Option (St × List Chunk)
  | .alias => none
  | .seqEnd => some ({ stack := st.stack.tail, ind := st.ind - cfg.best },
                     endl cfg (st.ind - cfg.best) ++ [Chunk.punct "]"])
  | .mapEnd => some ({ stack := st.stack.tail, ind := st.ind - cfg.best },
                     endl cfg (st.ind - cfg.best) ++ [Chunk.punct "}"])
  | .docEnd => some (st, endl cfg st.ind)
  | ev =>
    match st.stack with
    | [] => none     -- `self._json_state[-1]` on an empty list raises IndexError
    | top :: rest =>
      let sep := sepOf cfg st.ind top
      let stack' := nextOf top :: rest
      match ev with
      | .seqStart => some ({ stack := JS.seqFirst :: stack', ind := st.ind + cfg.best },
                           sep ++ [Chunk.punct "["] ++ endl cfg (st.ind + cfg.best))
      | .mapStart => some ({ stack := JS.mapKeyFirst :: stack', ind := st.ind + cfg.best },
                           sep ++ [Chunk.punct "{"] ++ endl cfg (st.ind + cfg.best))
      | .scalar k v => some ({ st with stack := stack' }, sep ++ [Chunk.scal (scalarText cfg.fns k v)])
      | _ => some ({ st with stack := stack' }, sep)

def run (cfg : Cfg) : St → List Ev → Option (St × List Chunk)
  | st, [] => some (st, [])
  | st, e :: es =>
    match emit cfg st e with
    | none => none
    | some (st1, o1) =>
      match run cfg st1 es with
      | none => none
      | some (st2, o2) => some (st2, o1 ++ o2)

-- a tree-shaped represented node, as far as `emit_json` can see it
mutual
inductive JT
  | scalar (k : SK) (value : String)
  | arr (xs : JL)
  | obj (kvs : JKL)
inductive JL | nil | cons (x : JT) (xs : JL)
inductive JKL | nil | cons (k : JT) (v : JT) (rest : JKL)
end

-- the events PyYAML's serializer emits for a node tree
mutual
def evT : JT → List Ev
  | .scalar k v => [Ev.scalar k v]
  | .arr xs => Ev.seqStart :: (evL xs ++ [Ev.seqEnd])
  | .obj kvs => Ev.mapStart :: (evK kvs ++ [Ev.mapEnd])
def evL : JL → List Ev
  | .nil => []
  | .cons x xs => evT x ++ evL xs
def evK : JKL → List Ev
  | .nil => []
  | .cons k v rest => evT k ++ (evT v ++ evK rest)
end

/-- the whole document: StreamStart, DocumentStart, node, DocumentEnd, StreamEnd.
(`StreamEndEvent` is emitted by `close()`; with the stack back at `[NONE]` it writes nothing.) -/
def evDoc (t : JT) : List Ev := [Ev.other, Ev.other] ++ evT t ++ [Ev.docEnd, Ev.other]

def init : St := { stack := [JS.none], ind := 0 }

-- reference renderer: plain structural recursion, no stack
mutual
def rT (cfg : Cfg) (ind : Nat) : JT → List Chunk
  | .scalar k v => [Chunk.scal (scalarText cfg.fns k v)]
  | .arr xs => [Chunk.punct "["] ++ endl cfg (ind + cfg.best) ++ rL cfg (ind + cfg.best) true xs
               ++ endl cfg ind ++ [Chunk.punct "]"]
  | .obj kvs => [Chunk.punct "{"] ++ endl cfg (ind + cfg.best) ++ rK cfg (ind + cfg.best) true kvs
                ++ endl cfg ind ++ [Chunk.punct "}"]
def rL (cfg : Cfg) (ind : Nat) (first : Bool) : JL → List Chunk
  | .nil => []
  | .cons x xs => (if first then [] else Chunk.punct "," :: endl cfg ind) ++ rT cfg ind x
                  ++ rL cfg ind false xs
def rK (cfg : Cfg) (ind : Nat) (first : Bool) : JKL → List Chunk
  | .nil => []
  | .cons k v rest => (if first then [] else Chunk.punct "," :: endl cfg ind) ++ rT cfg ind k
                      ++ [Chunk.punct cfg.kvsep] ++ rT cfg ind v ++ rK cfg ind false rest
end

def renderDoc (cfg : Cfg) (t : JT) : List Chunk := rT cfg 0 t ++ endl cfg 0

def Chunk.text (lineBreak : String) : Chunk → String
  | .punct s => s
  | .scal s => s
  | .nl n => lineBreak ++ String.ofList (List.replicate n ' ')

def textOf (lineBreak : String) (cs : List Chunk) : String :=
  cs.foldl (fun acc c => acc ++ c.text lineBreak) ""

end YatimlModel.Json
