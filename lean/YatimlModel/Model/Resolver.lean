import YatimlModel.Model.Regex
/-!
Model of `yaml.resolver.BaseResolver.resolve(ScalarNode, value, (True, _))` on a
*flattened* implicit-resolver table.  PyYAML keeps a dict from first character
(or `''`, or `None` = wildcard) to a list of `(tag, regexp)`; it tries the bucket
of `value[0]` (of `''` for the empty string) and then the wildcard bucket, in
order, and returns the tag of the first regexp that matches, else the default
scalar tag.  The translator flattens the dict (wildcard bucket last) and records
each entry's bucket key, so "first match in the flat list among the entries whose
key admits the string" is the same search.
-/
namespace YatimlModel
open Re

inductive Key | wild | empty | ch (c : Nat)
  deriving DecidableEq, Repr

/-- The tags an implicit resolver can produce (an enumeration rather than a
string, so that the kernel can compare them cheaply). -/
inductive RTag
  | str | int | float | bool | null | timestamp | merge | value | yaml
  | other (s : String)
  deriving DecidableEq, Repr

def RTag.toString : RTag → String
  | .str => "tag:yaml.org,2002:str" | .int => "tag:yaml.org,2002:int"
  | .float => "tag:yaml.org,2002:float" | .bool => "tag:yaml.org,2002:bool"
  | .null => "tag:yaml.org,2002:null" | .timestamp => "tag:yaml.org,2002:timestamp"
  | .merge => "tag:yaml.org,2002:merge" | .value => "tag:yaml.org,2002:value"
  | .yaml => "tag:yaml.org,2002:yaml" | .other s => s

structure Entry where
  key : Key
  tag : RTag
  re : Re
  deriving Repr

/-- PyYAML's `DEFAULT_SCALAR_TAG` -/
def tagStr : RTag := .str

def Key.admits : Key → List Nat → Bool
  | .wild, _ => true
  | .empty, s => s.isEmpty
  | .ch k, c :: _ => c == k
  | .ch _, [] => false

def Entry.matches (e : Entry) (s : List Nat) : Bool := e.key.admits s && rmatch e.re s

def resolve (tbl : List Entry) (s : List Nat) : RTag :=
  match tbl.find? (fun e => e.matches s) with
  | some e => e.tag
  | none => tagStr

def resolveStr (tbl : List Entry) (s : String) : String := (resolve tbl (codes s)).toString

end YatimlModel
