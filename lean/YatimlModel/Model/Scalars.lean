import YatimlModel.Model.Node
/-!
PyYAML's `SafeConstructor` for the core scalar tags.

`construct_yaml_int`, `construct_yaml_bool`, `construct_yaml_null` and
`construct_yaml_str` are modelled in full.  `construct_yaml_float`,
`construct_yaml_timestamp` and `construct_yaml_binary` involve floating point,
calendar arithmetic and base64 and are external functions of the model (`Ext`):
every theorem quantifies over them; the driver receives their values on the
strings of the case at hand from the harness, which calls the real PyYAML.
Failure sites are explicit (`none`), never totalised.
-/
namespace YatimlModel

/-- external (unmodelled) functions; `none` = the call raises -/
structure Ext where
  /-- `SafeConstructor().construct_yaml_float(ScalarNode(_, s))` as (`repr(x)`, `int(x)` if `x.is_integer()`) -/
  yamlFloat : String → Option (String × Option Int)
  /-- `repr` of the date/datetime `construct_yaml_timestamp` returns -/
  yamlTimestamp : String → Option String
  /-- `repr` of the bytes `construct_yaml_binary` returns -/
  yamlBinary : String → Option String

inductive PyScalar
  | str (s : String)
  | int (i : Int)
  | float (repr : String) (asInt : Option Int)   -- canonical `repr(x)`; `int(x)` if integral
  | bool (b : Bool)
  | none
  deriving DecidableEq, Repr, Inhabited

/-- Python `==` between two floats given by their `repr` -/
def floatReprEq (a b : String) : Bool :=
  if a == "nan" || b == "nan" then false
  else a == b || ((a == "0.0" || a == "-0.0") && (b == "0.0" || b == "-0.0"))

/-! ### `int(str, base)` for ASCII input -/

def digitVal (c : Char) : Option Nat :=
  if '0' ≤ c ∧ c ≤ '9' then some (c.toNat - 48)
  else if 'a' ≤ c ∧ c ≤ 'z' then some (c.toNat - 87)
  else if 'A' ≤ c ∧ c ≤ 'Z' then some (c.toNat - 55)
  else none

def digitsVal (base : Nat) : List Char → Nat → Option Nat
  | [], acc => some acc
  | c :: cs, acc =>
    match digitVal c with
    | some d => if d < base then digitsVal base cs (acc * base + d) else none
    | none => none

def isPySpace (c : Char) : Bool :=
  c == ' ' || c == '\t' || c == '\n' || c == '\r' || c == '\x0b' || c == '\x0c'

def stripSpace (cs : List Char) : List Char :=
  ((cs.dropWhile isPySpace).reverse.dropWhile isPySpace).reverse

def dropBasePrefix (base : Nat) : List Char → List Char
  | '0' :: x :: rest =>
    if (base == 16 && (x == 'x' || x == 'X')) || (base == 2 && (x == 'b' || x == 'B'))
        || (base == 8 && (x == 'o' || x == 'O')) then rest
    else '0' :: x :: rest
  | cs => cs

/-- CPython `int(s, base)` for base ∈ {2, 8, 10, 16} on ASCII strings without `_` -/
def pyInt (base : Nat) (s : List Char) : Option Int :=
  let s := stripSpace s
  let (neg, s) := match s with
    | '-' :: r => (true, r)
    | '+' :: r => (false, r)
    | r => (false, r)
  let s := dropBasePrefix base s
  match s with
  | [] => none
  | _ =>
    match digitsVal base s 0 with
    | some n => some (if neg then -(n : Int) else (n : Int))
    | none => none

def splitOnChar (c : Char) : List Char → List (List Char)
  | [] => [[]]
  | x :: xs =>
    match splitOnChar c xs with
    | [] => [[]]            -- unreachable
    | p :: ps => if x == c then [] :: p :: ps else (x :: p) :: ps

def sexagesimal : List Int → Int
  | [] => 0
  | d :: ds => d * (60 ^ ds.length) + sexagesimal ds

/-- `SafeConstructor.construct_yaml_int` (`none` = raises ValueError/IndexError) -/
def constructInt (value : String) : Option Int :=
  let v := value.toList.filter (· != '_')
  match v with
  | [] => none                                  -- value[0] on '' raises IndexError
  | c0 :: _ =>
    let sign : Int := if c0 == '-' then -1 else 1
    let v := if c0 == '+' || c0 == '-' then v.tail else v
    if v == ['0'] then some 0
    else match v with
      | '0' :: 'b' :: rest => (pyInt 2 rest).map (sign * ·)
      | '0' :: 'x' :: rest => (pyInt 16 rest).map (sign * ·)
      | '0' :: _ => (pyInt 8 v).map (sign * ·)
      | [] => none                              -- '+' or '-' alone: value[0] raises IndexError
      | _ =>
        if v.contains ':' then
          match (splitOnChar ':' v).mapM (pyInt 10) with
          | some ds => some (sign * sexagesimal ds)
          | none => none
        else (pyInt 10 v).map (sign * ·)

def asciiLowerStr (s : String) : String :=
  String.ofList (s.toList.map (fun c => if 'A' ≤ c ∧ c ≤ 'Z' then Char.ofNat (c.toNat + 32) else c))

/-- `SafeConstructor.bool_values[value.lower()]` (`none` = KeyError).  Non-ASCII
input never matches a key; `str.lower` can only map non-ASCII characters to
ASCII for U+212A (Kelvin sign) and U+0130, neither of which occurs in a key. -/
def constructBool (value : String) : Option Bool :=
  match asciiLowerStr value with
  | "yes" => some true | "no" => some false | "true" => some true | "false" => some false
  | "on" => some true | "off" => some false | _ => none

end YatimlModel
