import YatimlModel.Model.NodeOps
/-!
Model of the four structural seasoning transforms of `yatiml.helpers.Node`
(`seq_attribute_to_map`, `map_attribute_to_seq`, `index_attribute_to_map`,
`map_attribute_to_index`).  The Python code builds the result partly by in-place
mutation of the item nodes; since every check that can bail out now runs before
the first mutation, the functional reading below is faithful.
-/
namespace YatimlModel
namespace NodeOps

/-- the attribute's value node, when the transform applies at all:
`none` = "silently do nothing" -/
def attrFor (n : Node) (attr : String) : Except OpErr (Option Node) :=
  match hasAttribute n attr with
  | .error e => .error e
  | .ok false => .ok none
  | .ok true =>
    match getAttribute n attr with
    | .error e => .error e
    | .ok v => .ok (some v)

inductive KeyCheck | ok (keys : List String) | noop | err
  deriving DecidableEq, Repr

/-- the checking loop of `seq_attribute_to_map` -/
def checkSeqItems (keyAttr : String) (strict : Bool) : List Node → List String → KeyCheck
  | [], seen => .ok seen.reverse
  | item :: rest, seen =>
    match item with
    | .map _ ps _ =>
      match valuesOf ps.toList keyAttr with
      | [.scalar tag v _] =>
        if tag == tStr then
          if seen.contains v then (if strict then .err else .noop)
          else checkSeqItems keyAttr strict rest (v :: seen)
        else .err                                   -- 'Expected a string here'
      | [_] => .err                                 -- not a scalar: 'Expected a string here'
      | _ => .err                                   -- key attribute missing or repeated
    | _ => .noop                                    -- not a sequence of mappings

def seqItemToPair (keyAttr : String) (valAttr : Option String) (item : Node) : Node × Node :=
  match item with
  | .map t ps m =>
    let keyNode := (valuesOf ps.toList keyAttr).headD default
    let rest := removeFirst ps.toList keyAttr
    match valAttr, rest with
    | some va, [(k, v)] => if k.keyIs va then (keyNode, v) else (keyNode, .map t (Pairs.ofList rest) m)
    | _, _ => (keyNode, .map t (Pairs.ofList rest) m)
  | other => (default, other)                        -- excluded by `checkSeqItems`

def seqAttributeToMap (n : Node) (attr keyAttr : String) (valAttr : Option String)
    (strict : Bool) : Except OpErr Node :=
  match attrFor n attr with
  | .error e => .error e
  | .ok none => .ok n
  | .ok (some a) =>
    match a with
    | .seq _ items m =>
      match checkSeqItems keyAttr strict items.toList [] with
      | .err => .error .seasoning
      | .noop => .ok n
      | .ok _ =>
        let mapping := Node.map tMap (Pairs.ofList (items.toList.map (seqItemToPair keyAttr valAttr))) m
        setAttribute n attr mapping
    | _ => .ok n

def keyText : Node → Option String
  | .scalar _ v _ => some v
  | _ => none

def mapItemToSeq (keyAttr : String) (valAttr : Option String) (p : Node × Node) : Option Node :=
  match keyText p.1 with
  | none => none                  -- set_attribute(key_attribute, <a list>) raises TypeError
  | some kv =>
    let keyVal := Node.scalar tStr kv Mark.generated
    match p.2 with
    | .map t ps m => some (.map t (Pairs.ofList (setFirst ps.toList keyAttr keyVal)) m)
    | other =>
      match valAttr with
      | none => none              -- excluded by the pre-check
      | some va =>
        some (.map tMap (Pairs.ofList (setFirst [(Node.scalar tStr va Mark.generated, other)] keyAttr keyVal))
                p.1.mark)

def mapAttributeToSeq (n : Node) (attr keyAttr : String) (valAttr : Option String) :
    Except OpErr Node :=
  match attrFor n attr with
  | .error e => .error e
  | .ok none => .ok n
  | .ok (some a) =>
    match a with
    | .map _ ps m =>
      if valAttr.isNone && ps.toList.any (fun p => !p.2.isMapNode) then .ok n
      else
        match ps.toList.mapM (mapItemToSeq keyAttr valAttr) with
        | none => .error .type_
        | some items => setAttribute n attr (.seq tSeq (Nodes.ofList items) m)
    | _ => .ok n

def indexItem (keyAttr : String) (valAttr : Option String) (p : Node × Node) : Node × Node :=
  match p.2 with
  | .map t ps m =>
    let rest := ps.toList.filter (fun q => !q.1.keyIs keyAttr)
    match valAttr, rest with
    | some va, [(k, v)] => if k.keyIs va then (p.1, v) else (p.1, .map t (Pairs.ofList rest) m)
    | _, _ => (p.1, .map t (Pairs.ofList rest) m)
  | other => (p.1, other)

def indexAttributeToMap (n : Node) (attr keyAttr : String) (valAttr : Option String) :
    Except OpErr Node :=
  match attrFor n attr with
  | .error e => .error e
  | .ok none => .ok n
  | .ok (some a) =>
    match a with
    | .map t ps m =>
      if ps.toList.any (fun p => !p.2.isMapNode) then .ok n
      else setAttribute n attr (.map t (Pairs.ofList (ps.toList.map (indexItem keyAttr valAttr))) m)
    | _ => .ok n

def unindexItem (keyAttr : String) (valAttr : Option String) (p : Node × Node) : Node × Node :=
  let keyKey := Node.scalar tStr keyAttr p.1.mark
  match p.2 with
  | .map t ps m => (p.1, .map t (Pairs.ofList (ps.toList ++ [(keyKey, p.1)])) m)
  | other =>
    match valAttr with
    | some va =>
      (p.1, .map tMap (Pairs.ofList [(Node.scalar tStr va other.mark, other), (keyKey, p.1)]) other.mark)
    | none => (p.1, other)

def mapAttributeToIndex (n : Node) (attr keyAttr : String) (valAttr : Option String) :
    Except OpErr Node :=
  match attrFor n attr with
  | .error e => .error e
  | .ok none => .ok n
  | .ok (some a) =>
    match a with
    | .map t ps m =>
      setAttribute n attr (.map t (Pairs.ofList (ps.toList.map (unindexItem keyAttr valAttr))) m)
    | _ => .ok n

end NodeOps
end YatimlModel
