/-!
# The registries behind load and dump functions (C11)

A heap of *classes*, *instances* and *tables* (dicts, possibly of lists) in three levels:

* level 0 — what exists before any yatiml function is created: PyYAML's Loader/Dumper class
  hierarchy, yatiml's `Loader` and `Dumper`, and their class-level registries;
* level 1 — what a factory (`load_function`, `dumps_function`, …) creates: its `UserLoader` /
  `UserDumper` class and the tables that class owns;
* level 2 — what one call creates: the Loader / Dumper instance and its tables.

Python's attribute lookup (instance dict, class dict, then the MRO), PyYAML's copy-on-first-write
class methods and yatiml's own statements are run on this heap by a small interpreter; the programs
are regenerated from the source by `harness/translate_registry.py`.  Every write goes through
`St.write`, which records in `low` whether it touched an object of a lower level than the running
program's own — i.e. whether a factory wrote into PyYAML's / yatiml's shared classes, or a call wrote
into its function's class.  What is stored in a table (which tag, which constructor) is not part of
this heap: control flow never depends on it, and the property is about *where* writes land.

Names (attributes, variables) are interned to numbers by the translator.
-/
namespace YatimlModel.Reg

abbrev Name := Nat

inductive V where
  | none
  | ref (lvl : Nat) (i : Nat)
  | atom (s : Nat)                   -- anything immutable or foreign: user classes, tags, constructors
  deriving DecidableEq, Repr, Inhabited

inductive Obj where
  | cls (mro : List V) (attrs : List (Name × V))     -- `mro` without the class itself
  | inst (cls : V) (attrs : List (Name × V))
  | tbl (inner : Nat)      -- a dict; `inner` = lowest level of a list stored in it (3 = holds no list)
  deriving DecidableEq, Repr, Inhabited

structure St where
  spaces : List (List Obj)           -- index = level
  env : List (Name × V)              -- local and global names
  level : Nat
  low : Bool                         -- some write went below `level`
  err : Bool                         -- the program left the modelled fragment (attribute of None, …)
  deriving DecidableEq, Repr

def St.space (σ : St) (l : Nat) : List Obj := (σ.spaces[l]?).getD []
def St.get (σ : St) (l i : Nat) : Option Obj := (σ.space l)[i]?
def St.fail (σ : St) : St := { σ with err := true }
def St.bind (σ : St) (x : Name) (v : V) : St := { σ with env := (x, v) :: σ.env.filter (fun p => p.1 != x) }

/-- the only way an existing object changes -/
def St.write (σ : St) (l i : Nat) (o : Obj) : St :=
  { σ with spaces := σ.spaces.set l ((σ.space l).set i o), low := σ.low || decide (l < σ.level) }

/-- a content-only write (the shape of a table does not change) -/
def St.touch (σ : St) (l : Nat) : St := { σ with low := σ.low || decide (l < σ.level) }

def St.alloc (σ : St) (o : Obj) : St × V :=
  ({ σ with spaces := σ.spaces.set σ.level (σ.space σ.level ++ [o]) }, .ref σ.level (σ.space σ.level).length)

def ownAttr (o : Obj) (a : Name) : Option V :=
  match o with
  | .cls _ as => as.lookup a
  | .inst _ as => as.lookup a
  | .tbl _ => none

def lookupMro (σ : St) (a : Name) : List V → Option V
  | [] => none
  | .ref l i :: rest =>
    match (σ.get l i).bind (ownAttr · a) with
    | some v => some v
    | none => lookupMro σ a rest
  | _ :: rest => lookupMro σ a rest

/-- `getattr(C, a)` for a class `C` -/
def clsAttr (σ : St) (c : V) (a : Name) : Option V :=
  match c with
  | .ref l i =>
    match σ.get l i with
    | some (.cls mro as) => (as.lookup a).orElse (fun _ => lookupMro σ a mro)
    | _ => none
  | _ => none

/-- `getattr(v, a)`: own dict, then the class (for an instance), then the MRO -/
def getAttr (σ : St) (v : V) (a : Name) : Option V :=
  match v with
  | .ref l i =>
    match σ.get l i with
    | some (.cls mro as) => (as.lookup a).orElse (fun _ => lookupMro σ a mro)
    | some (.inst c as) => (as.lookup a).orElse (fun _ => clsAttr σ c a)
    | _ => none
  | _ => none

/-- `a in v.__dict__` -/
def hasOwn (σ : St) (v : V) (a : Name) : Bool :=
  match v with
  | .ref l i => ((σ.get l i).bind (ownAttr · a)).isSome
  | _ => false

def setOwn (o : Obj) (a : Name) (v : V) : Obj :=
  match o with
  | .cls m as => .cls m ((a, v) :: as.filter (fun p => p.1 != a))
  | .inst c as => .inst c ((a, v) :: as.filter (fun p => p.1 != a))
  | .tbl n => .tbl n

inductive E where
  | var (x : Name)
  | attr (e : E) (a : Name)
  | none
  | atom (s : Nat)
  | newTbl                           -- dict(), {}, []
  | copyTbl (e : E)                  -- X.copy(), dict(X): the lists inside are shared
  | deepCopyTbl (e : E)              -- {k: list(v) for k, v in X.items()}: fresh lists
  deriving DecidableEq, Repr, Inhabited

def evalCopy (σ : St) (v : V) (deep : Bool) : Option V × St :=
  match v with
  | .ref l i =>
    match σ.get l i with
    | some (.tbl inner) =>
      ((σ.alloc (.tbl (if deep then σ.level else inner))).2 |> some, (σ.alloc (.tbl (if deep then σ.level else inner))).1)
    | _ => (Option.none, σ.fail)
  | _ => (Option.none, σ.fail)

def eval (σ : St) : E → Option V × St
  | .var x =>
    match σ.env.lookup x with
    | some v => (some v, σ)
    | none => (Option.none, σ.fail)
  | .attr e a =>
    match eval σ e with
    | (some v, σ') =>
      match getAttr σ' v a with
      | some r => (some r, σ')
      | none => (Option.none, σ'.fail)
    | (none, σ') => (Option.none, σ')
  | .none => (some V.none, σ)
  | .atom s => (some (V.atom s), σ)
  | .newTbl => (some (σ.alloc (.tbl 3)).2, (σ.alloc (.tbl 3)).1)
  | .copyTbl e =>
    match eval σ e with
    | (some v, σ') => evalCopy σ' v false
    | (none, σ') => (Option.none, σ')
  | .deepCopyTbl e =>
    match eval σ e with
    | (some v, σ') => evalCopy σ' v true
    | (none, σ') => (Option.none, σ')

inductive Simple where
  | assign (x : Name) (e : E)
  | newClass (x : Name) (parent : E) (attrs : List (Name × Nat))
  | newInst (x : Name) (cls : E)
  | setAttr (o : E) (a : Name) (rhs : E)
  | tblSet (t : E)                    -- t[k] = v, t.update(..), del t[k]: v is not a list
  | tblSetList (t : E) (src : Option E) -- t[k] = a list: fresh (`none`) or taken out of table `src`
  | tblAppendIn (t : E)               -- t[k].append(..), t.setdefault(k, []).append(..)
  deriving DecidableEq, Repr, Inhabited

def mroOf (σ : St) (p : V) : List V :=
  match p with
  | .ref l i =>
    match σ.get l i with
    | some (.cls mro _) => p :: mro
    | _ => [p]
  | _ => [p]

def doSetAttr (σ : St) (target : V) (a : Name) (v : V) : St :=
  match target with
  | .ref l i =>
    match σ.get l i with
    | some (.tbl _) => σ.fail
    | some o => σ.write l i (setOwn o a v)
    | none => σ.fail
  | _ => σ.fail

def tblInner (σ : St) (t : V) : Option (Nat × Nat × Nat) :=
  match t with
  | .ref l i =>
    match σ.get l i with
    | some (.tbl inner) => some (l, i, inner)
    | _ => Option.none
  | _ => Option.none

def doTblSet (σ : St) (t : V) : St :=
  match tblInner σ t with
  | some (l, _, _) => σ.touch l
  | none => σ.fail

def doTblSetList (σ : St) (t : V) (srcInner : Nat) : St :=
  match tblInner σ t with
  | some (l, i, inner) => σ.write l i (.tbl (min inner srcInner))
  | none => σ.fail

def doTblAppendIn (σ : St) (t : V) : St :=
  match tblInner σ t with
  | some (l, _, inner) => (σ.touch l).touch inner
  | none => σ.fail

def runSimple (σ : St) : Simple → St
  | .assign x e =>
    match eval σ e with
    | (some v, σ') => σ'.bind x v
    | (none, σ') => σ'
  | .newClass x parent attrs =>
    match eval σ parent with
    | (some p, σ') =>
      ((σ'.alloc (.cls (mroOf σ' p) (attrs.map (fun q => (q.1, V.atom q.2))))).1).bind x
        (σ'.alloc (.cls (mroOf σ' p) (attrs.map (fun q => (q.1, V.atom q.2))))).2
    | (none, σ') => σ'
  | .newInst x c =>
    match eval σ c with
    | (some cv, σ') => ((σ'.alloc (.inst cv [])).1).bind x (σ'.alloc (.inst cv [])).2
    | (none, σ') => σ'
  | .setAttr o a rhs =>
    match eval σ o with
    | (some ov, σ1) =>
      match eval σ1 rhs with
      | (some v, σ2) => doSetAttr σ2 ov a v
      | (none, σ2) => σ2
    | (none, σ1) => σ1
  | .tblSet t =>
    match eval σ t with
    | (some tv, σ') => doTblSet σ' tv
    | (none, σ') => σ'
  | .tblSetList t Option.none =>
    match eval σ t with
    | (some tv, σ') => doTblSetList σ' tv σ'.level
    | (none, σ') => σ'
  | .tblSetList t (some src) =>
    match eval σ t with
    | (some tv, σ1) =>
      match eval σ1 src with
      | (some sv, σ2) =>
        match tblInner σ2 sv with
        | some (_, _, inner) => doTblSetList σ2 tv inner
        | none => σ2.fail
      | (none, σ2) => σ2
    | (none, σ1) => σ1
  | .tblAppendIn t =>
    match eval σ t with
    | (some tv, σ') => doTblAppendIn σ' tv
    | (none, σ') => σ'

def runSimples (σ : St) : List Simple → St
  | [] => σ
  | s :: rest => runSimples (runSimple σ s) rest

inductive Stmt where
  | simple (s : Simple)
  | ifNone (e : E) (body : List Simple)            -- `if e is None:`
  | ifNotOwn (o : E) (a : Name) (body : List Simple) -- `if not 'a' in o.__dict__:`
  deriving DecidableEq, Repr, Inhabited

def runStmt (σ : St) : Stmt → St
  | .simple s => runSimple σ s
  | .ifNone e body =>
    match eval σ e with
    | (some V.none, σ') => runSimples σ' body
    | (some _, σ') => σ'
    | (none, σ') => σ'
  | .ifNotOwn o a body =>
    match eval σ o with
    | (some ov, σ') => if hasOwn σ' ov a then σ' else runSimples σ' body
    | (none, σ') => σ'

def runStmts (σ : St) : List Stmt → St
  | [] => σ
  | s :: rest => runStmts (runStmt σ s) rest

inductive Top where
  | stmt (s : Stmt)
  | loop (body : List Stmt)          -- `for … in …:` any number of iterations
  deriving DecidableEq, Repr, Inhabited

def iter (body : List Stmt) : Nat → St → St
  | 0, σ => σ
  | n + 1, σ => iter body n (runStmts σ body)

/-- `counts` gives the number of iterations of each loop, in the order they are met -/
def runProg : List Top → List Nat → St → St
  | [], _, σ => σ
  | .stmt s :: rest, cs, σ => runProg rest cs (runStmt σ s)
  | .loop b :: rest, cs, σ => runProg rest cs.tail (iter b (cs.headD 0) σ)

/-- All final states of a program, when every loop body reaches a fixed point after one iteration
(`none` otherwise). -/
def explore : List Top → St → Option (List St)
  | [], σ => some [σ]
  | .stmt s :: rest, σ => explore rest (runStmt σ s)
  | .loop b :: rest, σ =>
    if runStmts (runStmts σ b) b = runStmts σ b then
      match explore rest σ, explore rest (runStmts σ b) with
      | some xs, some ys => some (xs ++ ys)
      | _, _ => Option.none
    else Option.none

def St.ok (σ : St) : Bool := !σ.low && !σ.err

/-! ## Functions and histories -/

structure Progs where
  base : List Obj
  env : List (Name × V)
  kinds : List Name
  factory : Name → List Top          -- creates the class; binds `clsVar`
  call : Name → List Top             -- one call: instance creation and `__init__`
  clsVar : Name                      -- the name the factory binds its class to

def Progs.st0 (P : Progs) (base fn : List Obj) (level : Nat) (env : List (Name × V)) : St :=
  { spaces := [base, fn, []], env := env, level := level, low := false, err := false }

/-- a function object: its kind, its own heap region and the reference to its class -/
structure Fn where
  kind : Name
  region : List Obj
  cls : Option V
  deriving DecidableEq, Repr

def Progs.create (P : Progs) (base : List Obj) (kind : Name) (cs : List Nat) : St :=
  runProg (P.factory kind) cs (P.st0 base [] 1 P.env)

def Progs.fnOf (P : Progs) (kind : Name) (r : St) : Fn :=
  { kind := kind, region := r.space 1, cls := r.env.lookup P.clsVar }

def Progs.callSt (P : Progs) (base : List Obj) (f : Fn) : St :=
  P.st0 base f.region 2 ((P.clsVar, f.cls.getD V.none) :: P.env)

def Progs.doCall (P : Progs) (base : List Obj) (f : Fn) (cs : List Nat) : St :=
  runProg (P.call f.kind) cs (P.callSt base f)

structure World where
  base : List Obj
  fns : List Fn
  bad : Bool
  deriving DecidableEq, Repr

inductive Op where
  | create (kind : Name) (cs : List Nat)
  | call (k : Nat) (cs : List Nat)
  deriving DecidableEq, Repr

def Progs.step (P : Progs) (w : World) : Op → World
  | .create kind cs =>
    { base := (P.create w.base kind cs).space 0,
      fns := w.fns ++ [P.fnOf kind (P.create w.base kind cs)],
      bad := w.bad || !(P.create w.base kind cs).ok }
  | .call k cs =>
    match w.fns[k]? with
    | Option.none => w
    | some f =>
      { base := (P.doCall w.base f cs).space 0,
        fns := w.fns.set k { f with region := (P.doCall w.base f cs).space 1 },
        bad := w.bad || !(P.doCall w.base f cs).ok }

def Progs.run (P : Progs) (w : World) (ops : List Op) : World := ops.foldl P.step w

def Progs.world0 (P : Progs) : World := { base := P.base, fns := [], bad := false }

/-- the checker: every final state of every factory is clean, and from each of them every final state
of a call is clean -/
def Progs.checkKind (P : Progs) (kind : Name) : Bool :=
  match explore (P.factory kind) (P.st0 P.base [] 1 P.env) with
  | Option.none => false
  | some fs => fs.all (fun r => r.ok &&
      match explore (P.call kind) (P.callSt P.base (P.fnOf kind r)) with
      | Option.none => false
      | some cs => cs.all St.ok)

def Progs.check (P : Progs) : Bool := P.kinds.all P.checkKind

end YatimlModel.Reg
