import YatimlModel.Model.Types
/-!
Model of `yatiml.recognizer.Recognizer` (as repaired: recognition is pure, `Any`
yields a set, the ambiguity message carries a position).

`recognize` returns the *set* of recognised types (a duplicate-free list in
first-insertion order) together with the leaves of the error tree
(`format_rec_error` only ever prints the leaves).  The functions recurse
simultaneously on the node, the type, the class hierarchy and through hook
call-backs, so they take a fuel argument; running out of fuel is a distinct
outcome (`Fatal.fuel`), never a default.
-/
namespace YatimlModel
open NodeOps

inductive Fatal where
  | seasoning (marks : List Mark)   -- SeasoningError from `get_attribute` on a repeated key, citing the mapping
  | hook               -- a custom recogniser raised something other than RecognitionError
  | unregistered       -- "Could not recognize for type X, is it registered?"
  | dictKey            -- RuntimeError: dict with non-string keys in the type
  | fuel
  deriving DecidableEq, Repr

abbrev RecOut := List Ty × List Leaf
abbrev RecRes := Except Fatal RecOut

def okLeaf : Leaf := ⟨[], []⟩
def recOk (t : Ty) : RecRes := .ok ([t], [okLeaf])
def recFail (marks : List Mark) (keys : List String := []) : RecRes := .ok ([], [⟨marks, keys⟩])

def insertT (t : Ty) (s : List Ty) : List Ty := if s.contains t then s else s ++ [t]
def unionT (a b : List Ty) : List Ty := b.foldl (fun acc t => insertT t acc) a

/-- `find_leaves` of a message with the given causes -/
def leavesOf (own : Leaf) (causes : List (List Leaf)) : List Leaf :=
  if causes.isEmpty then [own] else causes.flatten

/-! ### scalars, additional types -/

def recScalar (n : Node) (T : Ty) (tag : String) : RecRes :=
  match n with
  | .scalar t _ _ => if t == tag then recOk T else recFail [n.mark]
  | _ => recFail [n.mark]

/-! ### lists and dicts: element-wise, re-wrapping an ambiguous element -/

/-- the result once every element has been looked at: the first ambiguity, if there was one -/
def recDone (T : Ty) (amb : Option RecOut) : RecRes :=
  match amb with
  | some r => .ok r
  | none => recOk T

/-- remember the first ambiguous element -/
def noteAmb (amb : Option RecOut) (ts : List Ty) (wrap : Ty → Ty) (leaves : List Leaf) : Option RecOut :=
  match amb with
  | some r => some r
  | none => if ts.length > 1 then some (ts.map wrap, leaves) else none

def recListItems (rec : Node → Ty → RecRes) (T itemTy : Ty) (amb : Option RecOut) : List Node → RecRes
  | [] => recDone T amb
  | x :: xs =>
    match rec x itemTy with
    | .error e => .error e
    | .ok (ts, leaves) =>
      if ts.length == 0 then .ok ([], leaves)          -- own message dropped: it has a cause
      else recListItems rec T itemTy (noteAmb amb ts (Ty.seq .list) leaves) xs

def recList (rec : Node → Ty → RecRes) (n : Node) (T itemTy : Ty) : RecRes :=
  match n with
  | .seq _ items _ => recListItems rec T itemTy none items.toList
  | _ => recFail [n.mark]

def recDictPairs (rec : Node → Ty → RecRes) (T keyTy valTy : Ty) (amb : Option RecOut) :
    List (Node × Node) → RecRes
  | [] => recDone T amb
  | (k, v) :: rest =>
    match rec k keyTy with
    | .error e => .error e
    | .ok (kts, kl) =>
      if kts.length == 0 then .ok ([], kl)
      else
        match rec v valTy with
        | .error e => .error e
        | .ok (vts, vl) =>
          if vts.length == 0 then .ok ([], vl)
          else recDictPairs rec T keyTy valTy
                (noteAmb (noteAmb amb kts (fun t => Ty.map .dict t valTy) kl) vts (fun t => Ty.map .dict keyTy t) vl)
                rest

/-- is the key type a class on which `is_string_like` holds (`str` or a string-like class)? -/
def keyTypeOk (env : Env) : Ty → Bool
  | .str => true
  | .cls c => match env.find c with | some d => d.isStringLike | none => false
  | _ => false

def recDict (env : Env) (rec : Node → Ty → RecRes) (n : Node) (T keyTy valTy : Ty) : RecRes :=
  if !keyTypeOk env keyTy then .error .dictKey
  else match n with
    | .map _ ps _ => recDictPairs rec T keyTy valTy none ps.toList
    | _ => recFail [n.mark]

/-! ### unions -/

structure UnionAcc where
  types : List Ty
  causes : List (List Leaf)

def recUnionMembers (rec : Node → Ty → RecRes) (n : Node) : List Ty → UnionAcc → Except Fatal UnionAcc
  | [], acc => .ok acc
  | m :: ms, acc =>
    match rec n m with
    | .error e => .error e
    | .ok (ts, leaves) =>
      recUnionMembers rec n ms
        { types := unionT acc.types ts,
          causes := if ts.length == 0 then acc.causes ++ [leaves] else acc.causes }

def dropBoolFix (ts : List Ty) : List Ty :=
  if ts.contains .bool && ts.contains .boolFix then ts.filter (fun t => t != .boolFix) else ts

def recUnion (rec : Node → Ty → RecRes) (n : Node) (members : List Ty) : RecRes :=
  match recUnionMembers rec n members ⟨[], []⟩ with
  | .error e => .error e
  | .ok acc =>
    let ts := dropBoolFix acc.types
    if ts.length == 1 then .ok (ts, [okLeaf])
    else .ok (ts, leavesOf ⟨[n.mark], []⟩ acc.causes)

/-! ### custom recognisers: the `UnknownNode.require_*` helpers -/

/-- what a failing `require_*` cites in its RecognitionError message -/
abbrev Cited := List Mark × List String

def reqScalar (n : Node) (typs : List TypArg) : Except Fatal (Option Cited) :=
  match typs with
  | [] => .ok (if n.isScalarNode then none else some ([], []))
  | _ =>
    -- `is_scalar(typ)` raises ValueError for a type outside the table, but only on a scalar node
    let go := typs.foldl (fun (acc : Except Fatal Bool) t =>
      match acc with
      | .error e => .error e
      | .ok true => .ok true
      | .ok false =>
        match isScalar n t with
        | .ok b => .ok b
        | .error _ => .error .hook) (.ok false)
    match go with
    | .error e => .error e
    | .ok true => .ok none
    | .ok false => .ok (some ([], []))

def reqAttribute (rec : Node → Ty → RecRes) (n : Node) (a : String) (ty : Option Ty) :
    Except Fatal (Option Cited) :=
  match n with
  | .map _ ps _ =>
    match valuesOf ps.toList a with
    | [] => .ok (some ([], [a]))
    | v :: _ =>
      match ty with
      | none => .ok none
      | some T =>
        match rec v T with
        | .error e => .error e
        | .ok (ts, leaves) =>
          if ts.length == 0 then .ok (some (leaves.flatMap (·.marks), leaves.flatMap (·.keys)))
          else .ok none
  | _ => .ok (some ([], []))

/-- `node.get_value() != value` on a scalar whose tag matches `type(value)` -/
def scalarEquals (ext : Ext) (v : Node) (want : PyScalar) : Except Fatal (Option Bool) :=
  match isScalar v (match want with
      | .str _ => .str | .int _ => .int | .float _ _ => .float | .bool _ => .bool | .none => .none_) with
  | .ok true =>
    match getValue ext v with
    | .error _ => .ok (some false)       -- not a valid value for its tag: equal to nothing
    | .ok got =>
      match got, want with
      | .float r _, .float r' _ => .ok (some (floatReprEq r r'))
      | g, w => .ok (some (g == w))
  | _ => .ok none

def reqAttrValueLoop (ext : Ext) (a : String) (want : PyScalar) (neg : Bool) :
    List (Node × Node) → Bool → Except Fatal (Option Cited)
  | [], found => .ok (if found then none else some ([], [a]))
  | (k, v) :: rest, found =>
    if k.tag == tStr && k.keyIs a then
      match scalarEquals ext v want with
      | .error e => .error e
      | .ok none => if neg then .ok none else .ok (some ([], []))      -- wrong type
      | .ok (some eq) =>
        if neg then (if eq then .ok (some ([], [])) else reqAttrValueLoop ext a want neg rest true)
        else (if eq then reqAttrValueLoop ext a want neg rest true else .ok (some ([], [])))
    else reqAttrValueLoop ext a want neg rest found

def reqAttrValue (ext : Ext) (n : Node) (a : String) (want : PyScalar) (neg : Bool) :
    Except Fatal (Option Cited) :=
  match n with
  | .map _ ps _ => reqAttrValueLoop ext a want neg ps.toList false
  | _ => .ok (some ([], []))

/-- one step of a custom recogniser: `none` = returns normally, `some cited` = RecognitionError -/
def runRecOp (ext : Ext) (rec : Node → Ty → RecRes) (n : Node) : RecOp → Except Fatal (Option Cited)
  | .requireScalar typs => reqScalar n typs
  | .requireMapping => .ok (if n.isMapNode then none else some ([], []))
  | .requireSequence => .ok (if n.isSeqNode then none else some ([], []))
  | .requireAttribute a ty => reqAttribute rec n a ty
  | .requireAttributeValue a v => reqAttrValue ext n a v false
  | .requireAttributeValueNot a v => reqAttrValue ext n a v true
  | .raiseRecognition => .ok (some ([], []))
  | .raiseOther => .error .hook
  | .opaque f => .ok (if f n then none else some ([], []))

def runRecProg (ext : Ext) (rec : Node → Ty → RecRes) (n : Node) : List RecOp → Except Fatal (Option Cited)
  | [] => .ok none
  | op :: ops =>
    match runRecOp ext rec n op with
    | .error e => .error e
    | .ok (some c) => .ok (some c)
    | .ok none => runRecProg ext rec n ops

/-! ### one user class -/

/-- the recogniser says in which mapping a key is repeated (the innermost one: only the
`get_attribute` call is wrapped, not the recursive recognition) -/
def Fatal.atMapping (m : Mark) : Fatal → Fatal
  | .seasoning [] => .seasoning [m]
  | e => e

theorem Fatal.atMapping_hook (m : Mark) (e : Fatal) (h : e.atMapping m = .hook) : e = .hook := by
  unfold Fatal.atMapping at h; split at h <;> first | (cases h; done) | exact h
theorem Fatal.atMapping_fuel (m : Mark) (e : Fatal) (h : e.atMapping m = .fuel) : e = .fuel := by
  unfold Fatal.atMapping at h; split at h <;> first | (cases h; done) | exact h
theorem Fatal.atMapping_unregistered (m : Mark) (e : Fatal) (h : e.atMapping m = .unregistered) :
    e = .unregistered := by
  unfold Fatal.atMapping at h; split at h <;> first | (cases h; done) | exact h
theorem Fatal.atMapping_dictKey (m : Mark) (e : Fatal) (h : e.atMapping m = .dictKey) : e = .dictKey := by
  unfold Fatal.atMapping at h; split at h <;> first | (cases h; done) | exact h

/-- first key node whose value equals `name` (for the position of an attribute error) -/
def keyNodeOf (ps : List (Node × Node)) (name : String) : Option Node :=
  (ps.find? (fun p => p.1.keyIs name)).map (·.1)

def dashed (s : String) : String := replaceChar '_' '-' s

/-- try one spelling of an attribute name: `none` if the mapping has no such key -/
def tryAttrName (rec : Node → Ty → RecRes) (ps : List (Node × Node)) (ty : Ty) (name : String) :
    Option (Except Fatal (Option (List Leaf))) :=
  if hasKey ps name then
    some (match valuesOf ps name with
      | [v] =>
        (match rec v ty with
         | .error e => .error e
         | .ok (ts, leaves) => if ts.length == 0 then .ok (some leaves) else .ok none)
      | _ => .error (.seasoning []))
  else none

/-- recognition of one attribute of an auto-recognised class: exact name first, then dashed -/
def recAttr (rec : Node → Ty → RecRes) (n : Node) (ps : List (Node × Node)) (p : Param) :
    Except Fatal (Option (List Leaf)) :=
  match tryAttrName rec ps p.ty p.name with
  | some r => r
  | none =>
    match tryAttrName rec ps p.ty (dashed p.name) with
    | some r => r
    | none => if p.required then .ok (some [⟨[n.mark], [p.name]⟩]) else .ok none

def recAttrs (rec : Node → Ty → RecRes) (n : Node) (ps : List (Node × Node)) :
    List Param → Except Fatal (Option (List Leaf))
  | [] => .ok none
  | p :: rest =>
    match recAttr rec n ps p with
    | .error e => .error e
    | .ok (some leaves) => .ok (some leaves)
    | .ok none => recAttrs rec n ps rest

def recUserClass (env : Env) (rec : Node → Ty → RecRes) (n : Node) (d : ClassDef) : RecRes :=
  match d.recognize with
  | some prog =>
    match runRecProg env.ext rec n prog with
    | .error e => .error e
    | .ok none => recOk (.cls d.name)
    | .ok (some (marks, keys)) => recFail (n.mark :: marks) keys
  | none =>
    match d.kind with
    | .enum _ =>
      (match n with
       | .scalar t _ _ => if t == tStr || t == tBool then recOk (.cls d.name) else recFail [n.mark]
       | _ => recFail [n.mark])
    | .stringLike =>
      (match n with
       | .scalar t _ _ => if t == tStr then recOk (.cls d.name) else recFail [n.mark]
       | _ => recFail [n.mark])
    | .plain =>
      match n with
      | .map _ ps _ =>
        (match recAttrs rec n ps.toList d.params with
         | .error e => .error (e.atMapping n.mark)
         | .ok none => recOk (.cls d.name)
         | .ok (some leaves) => .ok ([], leaves))
      | _ => recFail [n.mark] ((d.params.filter (·.required)).map (·.name))

/-! ### the hierarchy: most derived matching classes -/

structure ClsAcc where
  types : List Ty
  causes : List (List Leaf)

def recSubclasses (recC : ClassDef → RecRes) : List ClassDef → ClsAcc → Except Fatal ClsAcc
  | [], acc => .ok acc
  | d :: ds, acc =>
    match recC d with
    | .error e => .error e
    | .ok (ts, leaves) =>
      recSubclasses recC ds
        { types := unionT acc.types ts,
          causes := if ts.length == 0 then acc.causes ++ [leaves] else acc.causes }

/-- the tail of `__recognize_user_classes`, once the candidate set is known -/
def finishClasses (env : Env) (n : Node) (top : Bool) (ts : List Ty) (causes : List (List Leaf)) : RecRes :=
  if ts.length == 0 then
    .ok ([], leavesOf ⟨if top || causes.length == 0 then [n.mark] else [], []⟩ causes)
  else if ts.length > 1 then
    match env.byTag n.tag with
    | some d => if ts.contains (.cls d.name) then recOk (.cls d.name)
                else .ok (ts, leavesOf ⟨[n.mark], []⟩ causes)
    | none => .ok (ts, leavesOf ⟨[n.mark], []⟩ causes)
  else if !hasPrefix "tag:yaml.org,2002" n.tag then
    match env.byTag n.tag with
    | some d => if ts.contains (.cls d.name) then .ok (ts, [okLeaf]) else recFail [n.mark]
    | none => recFail [n.mark]
  else .ok (ts, [okLeaf])

inductive Req where
  | ty (T : Ty)
  | classes (c : String) (top : Bool)

def recognizeReq (env : Env) : Nat → Node → Req → RecRes
  | 0, _, _ => .error .fuel
  | fuel + 1, n, .ty T =>
    let rec' := fun (x : Node) (U : Ty) => recognizeReq env fuel x (.ty U)
    match T with
    | .str => recScalar n T tStr
    | .int => recScalar n T tInt
    | .float => recScalar n T tFloat
    | .bool => recScalar n T tBool
    | .boolFix => recScalar n T tBool
    | .null => recScalar n T tNull
    | .date => recScalar n T tTimestamp
    | .path => recScalar n T tStr
    | .union ms => recUnion rec' n ms.toList
    | .seq _ item => recList rec' n T item
    | .map _ k v => recDict env rec' n T k v
    | .cls c => if env.isRegistered c then recognizeReq env fuel n (.classes c true) else .error .unregistered
    | .any => recOk .any
  | fuel + 1, n, .classes c top =>
    match env.find c with
    | none => .error .unregistered
    | some d =>
      let rec' := fun (x : Node) (U : Ty) => recognizeReq env fuel x (.ty U)
      match recSubclasses (fun s => recognizeReq env fuel n (.classes s.name false))
              (env.directSubclasses c) ⟨[], []⟩ with
      | .error e => .error e
      | .ok acc =>
        if acc.types.length == 0 then
          if d.abstract then finishClasses env n top [] acc.causes
          else
            match recUserClass env rec' n d with
            | .error e => .error e
            | .ok (ts, leaves) =>
              finishClasses env n top ts (if ts.length == 0 then acc.causes ++ [leaves] else acc.causes)
        else finishClasses env n top acc.types acc.causes

/-- `Recognizer.recognize(node, expected_type)` -/
def recognize (env : Env) (fuel : Nat) (n : Node) (T : Ty) : RecRes := recognizeReq env fuel n (.ty T)

end YatimlModel
