/-!
Model of CPython's `json.dumps(s)` for a `str` argument, on code points
(`json.encoder.py_encode_basestring_ascii` / `py_encode_basestring`; the C
accelerators implement the same tables).  Lone surrogates are code points like
any other here, as they are in a Python `str`.
-/
namespace YatimlModel.JsonString

def hexDigit (n : Nat) : Nat := if n < 10 then 48 + n else 87 + n     -- '0'.. / 'a'..
def hex4 (n : Nat) : List Nat :=
  [hexDigit (n / 4096 % 16), hexDigit (n / 256 % 16), hexDigit (n / 16 % 16), hexDigit (n % 16)]

/-- the short escapes of `ESCAPE_DCT` -/
def shortEsc (c : Nat) : Option Nat :=
  if c == 34 then some 34 else if c == 92 then some 92 else if c == 10 then some 110
  else if c == 13 then some 114 else if c == 9 then some 116 else if c == 8 then some 98
  else if c == 12 then some 102 else none

def uEsc (n : Nat) : List Nat := [92, 117] ++ hex4 n

/-- `ensure_ascii=True`: everything outside `' '..'~'` is escaped -/
def escAscii (c : Nat) : List Nat :=
  match shortEsc c with
  | some e => [92, e]
  | none =>
    if 32 ≤ c ∧ c ≤ 126 then [c]
    else if c < 65536 then uEsc c
    else uEsc (55296 + (c - 65536) / 1024 % 1024) ++ uEsc (56320 + (c - 65536) % 1024)

/-- `ensure_ascii=False`: only `"`, `\` and the C0 controls are escaped -/
def escUni (c : Nat) : List Nat :=
  match shortEsc c with
  | some e => [92, e]
  | none => if c < 32 then uEsc c else [c]

def dumps (ensureAscii : Bool) (s : List Nat) : List Nat :=
  [34] ++ s.flatMap (if ensureAscii then escAscii else escUni) ++ [34]

/-! RFC 8259 section 7: `string = quotation-mark *char quotation-mark`,
`char = unescaped / escape ( " \ / b f n r t / uXXXX )`, `unescaped = %x20-21 / %x23-5B / %x5D-10FFFF`. -/

def isHex (c : Nat) : Bool := (48 ≤ c && c ≤ 57) || (97 ≤ c && c ≤ 102) || (65 ≤ c && c ≤ 70)
def isEscLetter (c : Nat) : Bool :=
  c == 34 || c == 92 || c == 47 || c == 98 || c == 102 || c == 110 || c == 114 || c == 116

/-- recogniser for the characters after the opening quote, as a state machine:
0 = between characters, 1 = after a backslash, 2..5 = four hex digits pending,
6 = after the closing quote (nothing may follow). -/
def bodyStep (st c : Nat) : Option Nat :=
  if st == 0 then
    (if c == 34 then some 6 else if c == 92 then some 1 else if 32 ≤ c then some 0 else none)
  else if st == 1 then
    (if c == 117 then some 2 else if isEscLetter c then some 0 else none)
  else if st == 2 then (if isHex c then some 3 else none)
  else if st == 3 then (if isHex c then some 4 else none)
  else if st == 4 then (if isHex c then some 5 else none)
  else if st == 5 then (if isHex c then some 0 else none)
  else none

def validBodyFrom : Nat → List Nat → Bool
  | st, [] => st == 6
  | st, c :: cs =>
    match bodyStep st c with
    | some st' => validBodyFrom st' cs
    | none => false

def validBody (cs : List Nat) : Bool := validBodyFrom 0 cs

def validJsonString : List Nat → Bool
  | 34 :: rest => validBody rest
  | _ => false

end YatimlModel.JsonString
