/-!
PyYAML node trees as yatiml sees them after composition (aliases already
expanded): scalar / sequence / mapping nodes with a tag, a value and a start
mark.  Styles and end marks are not modelled (no code path of yatiml reads them
to decide anything; `flow_style` is only ever written).

The recursive types are mutual inductives (`Node`/`Nodes`/`Pairs`) so that
`DecidableEq` can be derived and structural recursion is available.
-/
namespace YatimlModel

structure Mark where
  line : Nat
  col : Nat
  deriving DecidableEq, Repr, Inhabited

/-- `Mark('generated node', 0, 0, 0, None, 0)` -/
def Mark.generated : Mark := ⟨0, 0⟩

mutual
inductive Node where
  | scalar (tag : String) (value : String) (m : Mark)
  | seq (tag : String) (items : Nodes) (m : Mark)
  | map (tag : String) (pairs : Pairs) (m : Mark)
inductive Nodes where
  | nil
  | cons (x : Node) (xs : Nodes)
inductive Pairs where
  | nil
  | cons (k v : Node) (rest : Pairs)
end
deriving instance DecidableEq for Node
deriving instance DecidableEq for Nodes
deriving instance DecidableEq for Pairs
deriving instance Repr for Node
instance : Inhabited Node := ⟨.scalar "" "" ⟨0, 0⟩⟩

def Nodes.toList : Nodes → List Node
  | .nil => []
  | .cons x xs => x :: xs.toList
def Nodes.ofList : List Node → Nodes
  | [] => .nil
  | x :: xs => .cons x (Nodes.ofList xs)
def Pairs.toList : Pairs → List (Node × Node)
  | .nil => []
  | .cons k v r => (k, v) :: r.toList
def Pairs.ofList : List (Node × Node) → Pairs
  | [] => .nil
  | (k, v) :: r => .cons k v (Pairs.ofList r)

@[simp] theorem Nodes.toList_ofList (l : List Node) : (Nodes.ofList l).toList = l := by
  induction l with
  | nil => rfl
  | cons x xs ih => simp [Nodes.ofList, Nodes.toList, ih]
@[simp] theorem Nodes.ofList_toList : ∀ (l : Nodes), Nodes.ofList l.toList = l
  | .nil => rfl
  | .cons x xs => by simp [Nodes.ofList, Nodes.toList, Nodes.ofList_toList xs]
@[simp] theorem Pairs.toList_ofList (l : List (Node × Node)) : (Pairs.ofList l).toList = l := by
  induction l with
  | nil => rfl
  | cons x xs ih => obtain ⟨k, v⟩ := x; simp [Pairs.ofList, Pairs.toList, ih]
@[simp] theorem Pairs.ofList_toList : ∀ (l : Pairs), Pairs.ofList l.toList = l
  | .nil => rfl
  | .cons k v r => by simp [Pairs.ofList, Pairs.toList, Pairs.ofList_toList r]

namespace Node
def tag : Node → String
  | .scalar t _ _ => t | .seq t _ _ => t | .map t _ _ => t
def mark : Node → Mark
  | .scalar _ _ m => m | .seq _ _ m => m | .map _ _ m => m
def setTag (t : String) : Node → Node
  | .scalar _ v m => .scalar t v m | .seq _ xs m => .seq t xs m | .map _ ps m => .map t ps m
def isScalarNode : Node → Bool | .scalar .. => true | _ => false
def isSeqNode : Node → Bool | .seq .. => true | _ => false
def isMapNode : Node → Bool | .map .. => true | _ => false
/-- `key_node.value == attribute` for a `str` attribute: only a scalar's value can be equal -/
def keyIs (k : Node) (a : String) : Bool :=
  match k with
  | .scalar _ v _ => v == a
  | _ => false
/-- the pairs of a mapping node as a list (empty for other kinds) -/
def pairs : Node → List (Node × Node)
  | .map _ ps _ => ps.toList
  | _ => []
def items : Node → List Node
  | .seq _ xs _ => xs.toList
  | _ => []
end Node

/-- `s.startswith(p)`, on character lists (so that it is easy to reason about) -/
def hasPrefix (p s : String) : Bool := p.toList.isPrefixOf s.toList

def corePrefix : String := "tag:yaml.org,2002:"
def tStr : String := "tag:yaml.org,2002:str"
def tInt : String := "tag:yaml.org,2002:int"
def tFloat : String := "tag:yaml.org,2002:float"
def tBool : String := "tag:yaml.org,2002:bool"
def tNull : String := "tag:yaml.org,2002:null"
def tTimestamp : String := "tag:yaml.org,2002:timestamp"
def tSeq : String := "tag:yaml.org,2002:seq"
def tMap : String := "tag:yaml.org,2002:map"

end YatimlModel
