/-! Feasibility prototype: Dumper.emit_json as a stack machine, refinement to a recursive renderer. -/
inductive JS | none | seq | seqFirst | mapKey | mapKeyFirst | mapValue
  deriving DecidableEq, Repr
inductive Ev | seqStart | seqEnd | mapStart | mapEnd | scalar (txt : String) | docEnd | other
  deriving Repr
inductive Chunk | tok (s : String) | nl (indent : Nat)
  deriving DecidableEq, Repr

structure Cfg where
  indented : Bool      -- _requested_indent is not None
  best : Nat           -- best_indent
  kvsep : String

structure St where
  stack : List JS      -- head = top
  ind : Nat

def endl (cfg : Cfg) (ind : Nat) : List Chunk := if cfg.indented then [Chunk.nl ind] else []

def sepOf (cfg : Cfg) (ind : Nat) : JS → List Chunk
  | .seq => Chunk.tok "," :: endl cfg ind
  | .mapKey => Chunk.tok "," :: endl cfg ind
  | .mapValue => [Chunk.tok cfg.kvsep]
  | _ => []
def nextOf : JS → JS
  | .seqFirst => .seq | .mapKeyFirst => .mapValue | .mapKey => .mapValue | .mapValue => .mapKey
  | s => s

def emit (cfg : Cfg) (st : St) : Ev → St × List Chunk
  | .seqEnd => ({ stack := st.stack.tail, ind := st.ind - cfg.best }, endl cfg (st.ind - cfg.best) ++ [Chunk.tok "]"])
  | .mapEnd => ({ stack := st.stack.tail, ind := st.ind - cfg.best }, endl cfg (st.ind - cfg.best) ++ [Chunk.tok "}"])
  | .docEnd => (st, endl cfg st.ind)
  | ev =>
    match st.stack with
    | [] => (st, [])     -- cannot happen: stack starts as [none]
    | top :: rest =>
      let sep := sepOf cfg st.ind top
      let stack' := nextOf top :: rest
      match ev with
      | .seqStart => ({ stack := JS.seqFirst :: stack', ind := st.ind + cfg.best }, sep ++ [Chunk.tok "["] ++ endl cfg (st.ind + cfg.best))
      | .mapStart => ({ stack := JS.mapKeyFirst :: stack', ind := st.ind + cfg.best }, sep ++ [Chunk.tok "{"] ++ endl cfg (st.ind + cfg.best))
      | .scalar t => ({ st with stack := stack' }, sep ++ [Chunk.tok t])
      | _ => ({ st with stack := stack' }, sep)

def run (cfg : Cfg) : St → List Ev → St × List Chunk
  | st, [] => (st, [])
  | st, e :: es => let (st1, o1) := emit cfg st e; let (st2, o2) := run cfg st1 es; (st2, o1 ++ o2)

mutual
inductive JT | scalar (s : String) | arr (xs : JL) | obj (kvs : JKL)
inductive JL | nil | cons (x : JT) (xs : JL)
inductive JKL | nil | cons (k : String) (v : JT) (rest : JKL)
end

mutual
def evT : JT → List Ev
  | .scalar s => [Ev.scalar s]
  | .arr xs => Ev.seqStart :: (evL xs ++ [Ev.seqEnd])
  | .obj kvs => Ev.mapStart :: (evK kvs ++ [Ev.mapEnd])
def evL : JL → List Ev
  | .nil => []
  | .cons x xs => evT x ++ evL xs
def evK : JKL → List Ev
  | .nil => []
  | .cons k v rest => Ev.scalar k :: (evT v ++ evK rest)
end

-- reference renderer: plain structural recursion, no stack
mutual
def rT (cfg : Cfg) (ind : Nat) : JT → List Chunk
  | .scalar s => [Chunk.tok s]
  | .arr xs => [Chunk.tok "["] ++ endl cfg (ind + cfg.best) ++ rL cfg (ind + cfg.best) true xs ++ endl cfg ind ++ [Chunk.tok "]"]
  | .obj kvs => [Chunk.tok "{"] ++ endl cfg (ind + cfg.best) ++ rK cfg (ind + cfg.best) true kvs ++ endl cfg ind ++ [Chunk.tok "}"]
def rL (cfg : Cfg) (ind : Nat) (first : Bool) : JL → List Chunk
  | .nil => []
  | .cons x xs => (if first then [] else Chunk.tok "," :: endl cfg ind) ++ rT cfg ind x ++ rL cfg ind false xs
def rK (cfg : Cfg) (ind : Nat) (first : Bool) : JKL → List Chunk
  | .nil => []
  | .cons k v rest => (if first then [] else Chunk.tok "," :: endl cfg ind) ++ [Chunk.tok k, Chunk.tok cfg.kvsep] ++ rT cfg ind v ++ rK cfg ind false rest
end

theorem run_append (cfg : Cfg) (st : St) (a b : List Ev) :
    run cfg st (a ++ b) = (let r1 := run cfg st a; let r2 := run cfg r1.1 b; (r2.1, r1.2 ++ r2.2)) := by
  induction a generalizing st with
  | nil => simp [run]
  | cons e es ih => simp [run, ih, List.append_assoc]


def topL (first : Bool) : JS := if first then JS.seqFirst else JS.seq
def topK (first : Bool) : JS := if first then JS.mapKeyFirst else JS.mapKey
def afterL (first : Bool) : JL → JS | .nil => topL first | _ => JS.seq
def afterK (first : Bool) : JKL → JS | .nil => topK first | _ => JS.mapKey

mutual
theorem run_T (cfg : Cfg) : ∀ (t : JT) (top : JS) (rest : List JS) (ind : Nat),
    run cfg ⟨top :: rest, ind⟩ (evT t) = (⟨nextOf top :: rest, ind⟩, sepOf cfg ind top ++ rT cfg ind t)
  | .scalar s, top, rest, ind => by simp [evT, run, emit, rT]
  | .arr xs, top, rest, ind => by
    have h := run_L cfg xs true (nextOf top :: rest) (ind + cfg.best)
    simp only [evT, run, emit]
    rw [run_append]
    simp only [topL, if_true] at h
    rw [h]
    cases xs <;> simp [run, emit, rT, afterL, topL, List.append_assoc]
  | .obj kvs, top, rest, ind => by
    have h := run_K cfg kvs true (nextOf top :: rest) (ind + cfg.best)
    simp only [evT, run, emit]
    rw [run_append]
    simp only [topK, if_true] at h
    rw [h]
    cases kvs <;> simp [run, emit, rT, afterK, topK, List.append_assoc]
theorem run_L (cfg : Cfg) : ∀ (xs : JL) (first : Bool) (rest : List JS) (ind : Nat),
    run cfg ⟨topL first :: rest, ind⟩ (evL xs) = (⟨afterL first xs :: rest, ind⟩, rL cfg ind first xs)
  | .nil, first, rest, ind => by simp [evL, run, rL, afterL]
  | .cons x xs, first, rest, ind => by
    have hx := run_T cfg x (topL first) rest ind
    have hxs := run_L cfg xs false rest ind
    simp only [evL]
    rw [run_append, hx]
    have hn : nextOf (topL first) = topL false := by cases first <;> rfl
    simp only [hn, hxs]
    cases first <;> cases xs <;> simp [rL, sepOf, topL, afterL, List.append_assoc]
theorem run_K (cfg : Cfg) : ∀ (kvs : JKL) (first : Bool) (rest : List JS) (ind : Nat),
    run cfg ⟨topK first :: rest, ind⟩ (evK kvs) = (⟨afterK first kvs :: rest, ind⟩, rK cfg ind first kvs)
  | .nil, first, rest, ind => by simp [evK, run, rK, afterK]
  | .cons k v kvs, first, rest, ind => by
    have hv := run_T cfg v JS.mapValue rest ind
    have hkvs := run_K cfg kvs false rest ind
    have hn : nextOf (topK first) = JS.mapValue := by cases first <;> rfl
    simp only [evK, run, emit, hn]
    rw [run_append, hv]
    have hn2 : nextOf JS.mapValue = topK false := rfl
    simp only [hn2, hkvs]
    cases first <;> cases kvs <;> simp [rK, sepOf, topK, afterK, List.append_assoc]
end

theorem emit_document (cfg : Cfg) (t : JT) :
    (run cfg ⟨[JS.none], 0⟩ (evT t)).2 = rT cfg 0 t := by
  rw [run_T]; simp [sepOf]
#print axioms emit_document
