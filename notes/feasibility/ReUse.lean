import ReDecide
open Re
def opt (r : Re) := alt eps r
def plus (r : Re) := cat r (star r)
def ch (c : Char) : Re := set [(c.toNat, c.toNat)]
def rng (a b : Char) : Re := set [(a.toNat, b.toNat)]
def str (s : String) : Re := s.toList.foldr (fun c r => mkCat (ch c) r) eps
def alts : List Re → Re
  | [] => empty | [r] => r | r :: rs => alt r (alts rs)
def digit := rng '0' '9'
def sign := opt (set [('-'.toNat,'-'.toNat),('+'.toNat,'+'.toNat)])
def expo := cat (set [('e'.toNat,'e'.toNat),('E'.toNat,'E'.toNat)]) (cat sign (plus digit))
def yatimlFloat : Re :=
  cat sign (alts [
    alts [cat (plus digit) expo,
          cat (plus digit) (cat (ch '.') (opt expo)),
          cat (star digit) (cat (ch '.') (cat (plus digit) (opt expo)))],
    cat (ch '.') (alts [str "inf", str "Inf", str "INF"]),
    cat (ch '.') (alts [str "nan", str "NaN", str "NAN"])])
def specFloat : Re :=
  alts [
    cat sign (cat (alts [cat (ch '.') (plus digit), cat (plus digit) (cat (ch '.') (star digit))]) (opt expo)),
    cat sign (cat (plus digit) expo),
    cat sign (cat (ch '.') (alts [str "inf", str "Inf", str "INF"])),
    cat sign (cat (ch '.') (alts [str "nan", str "NaN", str "NAN"]))]
-- the buggy (prefix-matching) variant:  R · Σ*
def anyChar : Re := set [(0, 1114111)]
def yatimlFloatNoAnchor : Re := cat yatimlFloat (star anyChar)

theorem float_lang_eq : ∀ s, rmatch yatimlFloat s = rmatch specFloat s :=
  equiv_sound _ _ (by decide +kernel)
#print axioms float_lang_eq
#eval equivCheck yatimlFloatNoAnchor specFloat
