/-! Feasibility prototype: fuel-based recogniser over a mutual-inductive type language,
    and the lemma "every recognised type is admitted by the expected type". -/
mutual
inductive Ty where
  | str | int | bool | boolFix | none | any
  | seq (item : Ty) | union (ms : Tys) | cls (name : String)
inductive Tys where
  | nil | cons (t : Ty) (ts : Tys)
end
deriving instance DecidableEq for Ty
deriving instance Repr for Ty
def Tys.toList : Tys → List Ty | .nil => [] | .cons t ts => t :: ts.toList

mutual
inductive Node where
  | scalar (tag : String) (value : String)
  | seq (tag : String) (items : Nodes)
  | map (tag : String) (pairs : Pairs)
inductive Nodes where | nil | cons (x : Node) (xs : Nodes)
inductive Pairs where | nil | cons (k v : Node) (rest : Pairs)
end
deriving instance DecidableEq for Node
def Nodes.toList : Nodes → List Node | .nil => [] | .cons x xs => x :: xs.toList
def Pairs.toList : Pairs → List (Node × Node) | .nil => [] | .cons k v r => (k, v) :: r.toList
def Node.tag : Node → String | .scalar t _ => t | .seq t _ => t | .map t _ => t
def Node.keyValue : Node → String | .scalar _ v => v | _ => ""

structure Param where
  name : String
  ty : Ty
  required : Bool
structure ClassDef where
  name : String
  bases : List String
  abstract : Bool
  params : List Param
structure Env where
  registered : List ClassDef

def Env.find (env : Env) (c : String) : Option ClassDef := env.registered.find? (·.name == c)
def Env.subclasses (env : Env) (c : String) : List ClassDef := env.registered.filter (·.bases.contains c)

def scalarTag : Ty → String
  | .str => "tag:yaml.org,2002:str" | .int => "tag:yaml.org,2002:int"
  | .bool => "tag:yaml.org,2002:bool" | .boolFix => "tag:yaml.org,2002:bool"
  | .none => "tag:yaml.org,2002:null" | _ => ""

def insertT (t : Ty) (s : List Ty) : List Ty := if s.contains t then s else s ++ [t]
def unionT (a b : List Ty) : List Ty := b.foldl (fun acc t => insertT t acc) a

def attrs (n : Node) (name : String) : List Node :=
  match n with
  | .map _ ps => (ps.toList.filter (fun p => p.1.keyValue == name)).map (·.2)
  | _ => []

/-- keep the subclass matches if there are any, else fall back to the class itself -/
def orSelf (subs self : List Ty) : List Ty := if subs.length == 0 then self else subs
/-- an explicit tag may pick one of several candidates -/
def disamb (env : Env) (n : Node) (r : List Ty) : List Ty :=
  if r.length > 1 then
    (match env.find (String.ofList (n.tag.toList.drop 1)) with
     | some d => if n.tag.startsWith "!" && r.contains (.cls d.name) then [.cls d.name] else r
     | none => r)
  else r

/-- returns the set of recognised types (errors elided in this prototype) -/
def recognize (env : Env) : Nat → Node → Ty → List Ty
  | 0, _, _ => []
  | fuel+1, n, T =>
    match T with
    | .str | .int | .bool | .boolFix | .none =>
      (match n with | .scalar t _ => if t == scalarTag T then [T] else [] | _ => [])
    | .any => [.any]
    | .union ms =>
      let rs := ms.toList.foldl (fun acc m => unionT acc (recognize env fuel n m)) []
      if rs.contains .bool && rs.contains .boolFix then rs.filter (· != .boolFix) else rs
    | .seq item =>
      (match n with
       | .seq _ items =>
         let rec go : List Node → List Ty
           | [] => [T]
           | x :: xs =>
             let r := recognize env fuel x item
             if r.length == 0 then [] else if r.length > 1 then r.map Ty.seq else go xs
         go items.toList
       | _ => [])
    | .cls c =>
      match env.find c with
      | none => []
      | some cd => recClasses fuel n cd
where
  recClass (fuel : Nat) (n : Node) (cd : ClassDef) : List Ty :=
    match n with
    | .map _ _ =>
      if cd.params.all (fun p =>
          match attrs n p.name with
          | [v] => (recognize env fuel v p.ty).length != 0
          | [] => !p.required
          | _ => false)
      then [.cls cd.name] else []
    | _ => []
  recClasses : Nat → Node → ClassDef → List Ty
    | 0, _, _ => []
    | fuel+1, n, cd =>
      let subs := (env.subclasses cd.name).foldl (fun acc d => unionT acc (recClasses fuel n d)) []
      disamb env n (orSelf subs (if cd.abstract then [] else recClass fuel n cd))
