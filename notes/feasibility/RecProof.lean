import Rec

theorem mem_insertT (t x : Ty) (s : List Ty) : t ∈ insertT x s ↔ t = x ∨ t ∈ s := by
  unfold insertT
  split
  · rename_i h
    constructor
    · intro h'; exact Or.inr h'
    · rintro (rfl | h') 
      · simpa using h
      · exact h'
  · simp [List.mem_append]; grind

theorem mem_unionT (t : Ty) (a b : List Ty) : t ∈ unionT a b ↔ t ∈ a ∨ t ∈ b := by
  unfold unionT
  induction b generalizing a with
  | nil => simp
  | cons x xs ih => simp only [List.foldl_cons, ih, mem_insertT, List.mem_cons]; grind

theorem mem_foldl_union {α : Type} (f : α → List Ty) (l : List α) (init : List Ty) (t : Ty) :
    t ∈ l.foldl (fun acc m => unionT acc (f m)) init ↔ t ∈ init ∨ ∃ m ∈ l, t ∈ f m := by
  induction l generalizing init with
  | nil => simp
  | cons x xs ih => simp only [List.foldl_cons, ih, mem_unionT, List.mem_cons]; constructor
                    · rintro ((h | h) | ⟨m, hm, h⟩)
                      · exact Or.inl h
                      · exact Or.inr ⟨x, Or.inl rfl, h⟩
                      · exact Or.inr ⟨m, Or.inr hm, h⟩
                    · rintro (h | ⟨m, (rfl | hm), h⟩)
                      · exact Or.inl (Or.inl h)
                      · exact Or.inl (Or.inr h)
                      · exact Or.inr ⟨m, hm, h⟩

/-- `d` is `c` or reachable from `c` through registered direct-subclass edges -/
inductive Descends (env : Env) : String → String → Prop
  | refl (c : String) : Descends env c c
  | step {c d e : String} : (∃ cd ∈ env.registered, cd.name = d ∧ cd.bases.contains c = true) →
      Descends env d e → Descends env c e

inductive Admits (env : Env) : Ty → Ty → Prop
  | self (T : Ty) : Admits env T T
  | unionMem {ms : Tys} {m t : Ty} : m ∈ ms.toList → Admits env m t → Admits env (.union ms) t
  | seqItem {i t : Ty} : Admits env i t → Admits env (.seq i) (.seq t)
  | cls {c d : String} : Descends env c d → (∃ cd ∈ env.registered, cd.name = d) → Admits env (.cls c) (.cls d)

theorem find_some (env : Env) (c : String) (cd : ClassDef) (h : env.find c = some cd) :
    cd ∈ env.registered ∧ cd.name = c := by
  unfold Env.find at h
  have h1 := List.mem_of_find?_eq_some h
  have h2 := List.find?_some h
  exact ⟨h1, by simpa using h2⟩

theorem mem_disamb (env : Env) (n : Node) (r : List Ty) (t : Ty) (h : t ∈ disamb env n r) : t ∈ r := by
  unfold disamb at h
  split at h
  · split at h
    · split at h
      · rename_i hc
        simp only [Bool.and_eq_true] at hc
        rw [List.mem_singleton.mp h]; simpa using hc.2
      · exact h
    · exact h
  · exact h

theorem mem_orSelf (subs self : List Ty) (t : Ty) (h : t ∈ orSelf subs self) : t ∈ subs ∨ t ∈ self := by
  unfold orSelf at h; split at h
  · exact Or.inr h
  · exact Or.inl h

def Good (env : Env) (c : String) (t : Ty) : Prop :=
  ∃ d, t = .cls d ∧ Descends env c d ∧ (∃ x ∈ env.registered, x.name = d)

theorem recClass_good (env : Env) (k : Nat) (n : Node) (cd : ClassDef) (hcd : cd ∈ env.registered) (t : Ty)
    (h : t ∈ recognize.recClass env k n cd) : Good env cd.name t := by
  unfold recognize.recClass at h
  split at h
  · split at h
    · exact ⟨cd.name, List.mem_singleton.mp h, Descends.refl _, cd, hcd, rfl⟩
    · cases h
  · cases h

theorem recClasses_admits (env : Env) :
    ∀ (fuel : Nat) (n : Node) (cd : ClassDef) (t : Ty), cd ∈ env.registered →
      t ∈ recognize.recClasses env fuel n cd → Good env cd.name t := by
  intro fuel
  induction fuel with
  | zero => intro n cd t _ h; simp [recognize.recClasses] at h
  | succ k ih =>
    intro n cd t hcd h
    simp only [recognize.recClasses] at h
    rcases mem_orSelf _ _ _ (mem_disamb _ _ _ _ h) with h1 | h1
    · rw [mem_foldl_union] at h1
      rcases h1 with h1 | ⟨d, hd, ht⟩
      · cases h1
      · have hdreg : d ∈ env.registered := (List.mem_filter.mp hd).1
        have hdb : d.bases.contains cd.name = true := (List.mem_filter.mp hd).2
        obtain ⟨e, he, hdesc, hreg⟩ := ih n d t hdreg ht
        exact ⟨e, he, Descends.step ⟨d, hdreg, rfl, hdb⟩ hdesc, hreg⟩
    · split at h1
      · cases h1
      · exact recClass_good env k n cd hcd t h1

theorem go_admits (env : Env) (k : Nat) (item : Ty)
    (ih : ∀ (n : Node) (T t : Ty), t ∈ recognize env k n T → Admits env T t) :
    ∀ (xs : List Node) (t : Ty), t ∈ recognize.go env k (.seq item) item xs → Admits env (.seq item) t := by
  intro xs
  induction xs with
  | nil => intro t h; simp [recognize.go] at h; rw [h]; exact Admits.self _
  | cons x xs ihx =>
    intro t h
    simp only [recognize.go] at h
    split at h
    · cases h
    · split at h
      · rw [List.mem_map] at h
        obtain ⟨u, hu, rfl⟩ := h
        exact Admits.seqItem (ih x item u hu)
      · exact ihx t h

theorem recognize_admits (env : Env) :
    ∀ (fuel : Nat) (n : Node) (T t : Ty), t ∈ recognize env fuel n T → Admits env T t := by
  intro fuel
  induction fuel with
  | zero => intro n T t h; simp [recognize] at h
  | succ k ih =>
    intro n T t h
    cases T with
    | str => unfold recognize at h; simp only at h; split at h <;> (try split at h) <;> simp_all <;> exact Admits.self _
    | int => unfold recognize at h; simp only at h; split at h <;> (try split at h) <;> simp_all <;> exact Admits.self _
    | bool => unfold recognize at h; simp only at h; split at h <;> (try split at h) <;> simp_all <;> exact Admits.self _
    | boolFix => unfold recognize at h; simp only at h; split at h <;> (try split at h) <;> simp_all <;> exact Admits.self _
    | none => unfold recognize at h; simp only at h; split at h <;> (try split at h) <;> simp_all <;> exact Admits.self _
    | any => unfold recognize at h; simp only at h; rw [List.mem_singleton.mp h]; exact Admits.self _
    | seq item =>
      unfold recognize at h; simp only at h
      split at h
      · exact go_admits env k item ih _ t h
      · cases h
    | union ms =>
      unfold recognize at h; simp only at h
      have hmem : t ∈ ms.toList.foldl (fun acc m => unionT acc (recognize env k n m)) [] := by
        split at h
        · exact (List.mem_filter.mp h).1
        · exact h
      rw [mem_foldl_union] at hmem
      rcases hmem with h0 | ⟨m, hm, ht⟩
      · cases h0
      · exact Admits.unionMem hm (ih n m t ht)
    | cls c =>
      unfold recognize at h; simp only at h
      split at h
      · cases h
      · rename_i cd hfind
        obtain ⟨hreg, hname⟩ := find_some env c cd hfind
        obtain ⟨d, rfl, hdesc, hx⟩ := recClasses_admits env k n cd t hreg h
        rw [hname] at hdesc
        exact Admits.cls hdesc hx
#print axioms recognize_admits
