abbrev CSet := List (Nat × Nat)
def CSet.mem (cs : CSet) (c : Nat) : Bool := cs.any (fun p => p.1 ≤ c && c ≤ p.2)

inductive Re where
  | empty | eps
  | set (cs : CSet)
  | cat (a b : Re)
  | alt (a b : Re)
  | star (a : Re)
  deriving DecidableEq, Repr, Inhabited

namespace Re
def nullable : Re → Bool
  | empty => false | eps => true | set _ => false
  | cat a b => nullable a && nullable b
  | alt a b => nullable a || nullable b
  | star _ => true

def mkCat (a b : Re) : Re :=
  match a, b with
  | empty, _ => empty | _, empty => empty
  | eps, b => b | a, eps => a
  | a, b => cat a b

def altMem (x : Re) : Re → Bool
  | alt a b => (x == a) || altMem x b
  | y => x == y
def mkAlt1 (a b : Re) : Re :=
  match a, b with
  | empty, b => b | a, empty => a
  | a, b => if altMem a b then b else alt a b
def mkAlt : Re → Re → Re
  | alt a1 a2, b => mkAlt1 a1 (mkAlt a2 b)
  | a, b => mkAlt1 a b

def deriv (c : Nat) : Re → Re
  | empty => empty | eps => empty
  | set cs => if cs.mem c then eps else empty
  | cat a b => if nullable a then mkAlt (mkCat (deriv c a) b) (deriv c b) else mkCat (deriv c a) b
  | alt a b => mkAlt (deriv c a) (deriv c b)
  | star a => mkCat (deriv c a) (star a)

def derivs (r : Re) (s : List Nat) : Re := s.foldl (fun r c => deriv c r) r
def rmatch (r : Re) (s : List Nat) : Bool := nullable (derivs r s)

/-- all range boundaries (lo and hi+1) occurring in a regex -/
def bounds : Re → List Nat
  | set cs => cs.foldr (fun p acc => p.1 :: (p.2+1) :: acc) []
  | cat a b => bounds a ++ bounds b
  | alt a b => bounds a ++ bounds b
  | star a => bounds a
  | _ => []
end Re

/-- greatest element of `bs` that is ≤ c (0 if none) -/
def rep (bs : List Nat) (c : Nat) : Nat :=
  bs.foldl (fun acc b => if b ≤ c ∧ acc ≤ b then b else acc) 0
