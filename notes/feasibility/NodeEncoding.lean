structure Mark where
  line : Nat
  col : Nat
  deriving DecidableEq, Repr
mutual
inductive Node where
  | scalar (tag : String) (value : String) (m : Mark)
  | seq (tag : String) (items : Nodes) (m : Mark)
  | map (tag : String) (pairs : Pairs) (m : Mark)
inductive Nodes where
  | nil | cons (x : Node) (xs : Nodes)
inductive Pairs where
  | nil | cons (k v : Node) (rest : Pairs)
end
deriving instance DecidableEq for Node
deriving instance Repr for Node
mutual
def stripTags : Node → Node
  | .scalar t v m => .scalar (if t.startsWith "tag:yaml.org,2002:" then t else "resolved") v m
  | .seq _ items m => .seq "tag:yaml.org,2002:seq" (stripL items) m
  | .map _ pairs m => .map "tag:yaml.org,2002:map" (stripP pairs) m
def stripL : Nodes → Nodes
  | .nil => .nil | .cons x xs => .cons (stripTags x) (stripL xs)
def stripP : Pairs → Pairs
  | .nil => .nil | .cons k v r => .cons (stripTags k) (stripTags v) (stripP r)
end
mutual
theorem strip_idem : ∀ n, stripTags (stripTags n) = stripTags n
  | .scalar t v m => by simp only [stripTags]; split <;> simp_all
  | .seq _ items m => by simp [stripTags, stripL_idem items]
  | .map _ pairs m => by simp [stripTags, stripP_idem pairs]
theorem stripL_idem : ∀ l, stripL (stripL l) = stripL l
  | .nil => rfl | .cons x xs => by simp [stripL, strip_idem x, stripL_idem xs]
theorem stripP_idem : ∀ l, stripP (stripP l) = stripP l
  | .nil => rfl | .cons k v r => by simp [stripP, strip_idem k, strip_idem v, stripP_idem r]
end
example : stripTags (.seq "!x" (.cons (.scalar "!y" "1" ⟨0,0⟩) .nil) ⟨0,0⟩) = .seq "tag:yaml.org,2002:seq" (.cons (.scalar "resolved" "1" ⟨0,0⟩) .nil) ⟨0,0⟩ := by decide
