import ReRep
open Re

abbrev Vec := List Re
def stepV (c : Nat) (v : Vec) : Vec := v.map (deriv c)
def nulls (v : Vec) : List Bool := v.map nullable
def runV (v : Vec) (s : List Nat) : Vec := s.foldl (fun v c => stepV c v) v

def boundsOk (bs : List Nat) (v : Vec) : Bool := v.all (fun r => (bounds r).all (fun b => bs.contains b))

/-- `R` is a set of vectors closed under derivatives w.r.t. all representatives (0 and `bs`),
    on each of which `good` holds. -/
def closed (bs : List Nat) (good : List Bool → Bool) (R : List Vec) : Bool :=
  R.all (fun v => good (nulls v) && boundsOk bs v && (0 :: bs).all (fun c => R.contains (stepV c v)))

theorem stepV_rep (bs : List Nat) (c : Nat) (v : Vec) (h : boundsOk bs v = true) :
    stepV c v = stepV (rep' bs c) v := by
  unfold stepV
  apply List.map_congr_left
  intro r hr
  apply deriv_rep
  intro b hb
  simp only [boundsOk, List.all_eq_true] at h
  have := h r hr b hb
  simpa using this

theorem closed_sound (bs : List Nat) (good : List Bool → Bool) (R : List Vec)
    (hc : closed bs good R = true) :
    ∀ (s : List Nat) (v : Vec), v ∈ R → good (nulls (runV v s)) = true := by
  intro s
  induction s with
  | nil =>
    intro v hv
    simp only [closed, List.all_eq_true, Bool.and_eq_true] at hc
    exact (hc v hv).1.1
  | cons c s ih =>
    intro v hv
    have hcv := hc
    simp only [closed, List.all_eq_true, Bool.and_eq_true] at hcv
    obtain ⟨⟨_, hb⟩, hstep⟩ := hcv v hv
    have hrep : rep' bs c ∈ (0 :: bs) := by
      rcases rep'_mem bs c with h | h
      · exact List.mem_cons_of_mem _ h
      · rw [h]; exact List.mem_cons_self
    have hin := hstep _ hrep
    have hin' : stepV (rep' bs c) v ∈ R := by simpa using hin
    show good (nulls (runV (stepV c v) s)) = true
    rw [stepV_rep bs c v hb]
    exact ih _ hin'

/-- candidate relation computed by a worklist (untrusted; only `closed` is trusted) -/
def explore (bs : List Nat) : Nat → List Vec → List Vec → List Vec
  | 0, _, seen => seen
  | _, [], seen => seen
  | fuel+1, v :: todo, seen =>
    if seen.contains v then explore bs fuel todo seen
    else explore bs fuel ((0 :: bs).map (fun c => stepV c v) ++ todo) (v :: seen)

/-- pairwise equivalence as an instance -/
def goodEq : List Bool → Bool
  | [a, b] => a == b
  | _ => false

theorem runV_pair (a b : Re) (s : List Nat) : runV [a, b] s = [derivs a s, derivs b s] := by
  induction s generalizing a b with
  | nil => rfl
  | cons c s ih => simp only [runV, derivs, List.foldl_cons, stepV, List.map] at *; exact ih _ _

def insertSorted (x : Nat) : List Nat → List Nat
  | [] => [x]
  | y :: ys => if x < y then x :: y :: ys else if x == y then y :: ys else y :: insertSorted x ys
def allBounds (rs : List Re) : List Nat := (rs.flatMap bounds).foldr insertSorted []

def equivCheck (a b : Re) : Bool :=
  let bs := allBounds [a, b]
  let R := explore bs 100000 [[a, b]] []
  R.contains [a, b] && closed bs goodEq R

theorem equiv_sound (a b : Re) (h : equivCheck a b = true) : ∀ s, rmatch a s = rmatch b s := by
  intro s
  simp only [equivCheck, Bool.and_eq_true] at h
  have hin : [a, b] ∈ explore (allBounds [a, b]) 100000 [[a, b]] [] := by simpa using h.1
  have := closed_sound _ _ _ h.2 s [a, b] hin
  rw [runV_pair] at this
  simp only [nulls, List.map, goodEq] at this
  simpa [rmatch] using this
